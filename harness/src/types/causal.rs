//! Orswot, MVReg and (nested) Map adapters.
use crate::dump::Dump;
use crate::rng::Rng;
use crate::spec;
use crate::sut::*;
use crdts::ctx::{AddCtx, ReadCtx};
use crdts::{map, mvreg, orswot, CmRDT, CvRDT, MVReg, Map, Orswot, ResetRemove};
use std::collections::BTreeMap;

pub type OS = Orswot<u8, A>;
pub type MV = MVReg<u32, A>;
pub type MO = Map<u8, OS, A>;
pub type MM = Map<u8, MV, A>;
pub type MMO = Map<u8, MO, A>;
pub type MMM = Map<u8, MM, A>;
pub type MMMO = Map<u8, MMO, A>;

/// derive_add_ctx, then fast-forward the dot by `jump` counters (jump 0: exactly what the API returned)
fn derive_j<V>(rc: ReadCtx<V, A>, actor: A, jump: u64) -> (AddCtx<A>, Option<(DotT, Clk, Clk)>) {
    let (mut ctx, d) = derive(rc, actor);
    if jump == 0 {
        return (ctx, Some(d));
    }
    ctx.dot.counter += jump;
    ctx.clock.apply(ctx.dot.clone());
    (ctx, None)
}

fn derive<V>(rc: ReadCtx<V, A>, actor: A) -> (AddCtx<A>, (DotT, Clk, Clk)) {
    let add_clock = vc(&rc.add_clock);
    let ctx = rc.derive_add_ctx(actor);
    let d = ((ctx.dot.actor, ctx.dot.counter), vc(&ctx.clock), add_clock);
    (ctx, d)
}

/// scratch area filled while an op is being generated (also from inside `Map::update` closures)
pub struct GenAcc {
    pub facts: Vec<Fact>,
    pub desc: String,
    pub rf_vals: Vec<u32>,
    pub rm_ctxs: Vec<Clk>,
}

/// observation of one value: (reads, element witnesses, nested contexts)
pub struct ValObs {
    pub reads: Dump,
    pub w: Dump,
    pub nested: Dump,
}

pub trait NestedVal: map::Val<A> + CvRDT + PartialEq + std::fmt::Debug + serde::Serialize {
    const DEPTH: usize;
    const LEAF_REG: bool;
    /// draw a random nested command for a value of this type
    fn random_nested(rng: &mut Rng) -> Cmd;
    /// template commands on the hot path *inside* a value of this type (role 0 writer, role 1 nested remover)
    fn template_nested(role: u8, rng: &mut Rng) -> Cmd;
    /// interpret a nested command for the value at `path` (the enclosing update carries `dot`)
    fn gen_nested(&self, ctx: AddCtx<A>, cmd: &Cmd, path: &[u8], dot: DotT, sh: &mut Shadow, old: Option<&Self>, acc: &mut GenAcc) -> Self::Op;
    fn obs(&self, inc: &mut Option<String>) -> ValObs;
    /// some update of this value under the given (crafted) context, used to build aged initial states
    fn aging_op(&self, ctx: AddCtx<A>) -> Self::Op;
}

fn aging_ctx(a: A, b: u64) -> AddCtx<A> {
    AddCtx { clock: crdts::VClock::from(crdts::Dot::new(a, b)), dot: crdts::Dot::new(a, b) }
}

// ---------------- Orswot ----------------
fn os_obs(s: &OS, inc: &mut Option<String>) -> (ValObs, Clk, Clk) {
    let r = s.read();
    let add = vc(&r.add_clock);
    let rm_all = vc(&r.rm_clock);
    let mut members: Vec<u8> = r.val.iter().cloned().collect();
    members.sort();
    let rc = s.read_ctx();
    if vc(&rc.add_clock) != add || vc(&rc.rm_clock) != rm_all {
        *inc = Some("Orswot read_ctx() and read() contexts differ".into());
    }
    let mut w: BTreeMap<u8, Clk> = BTreeMap::new();
    for it in s.iter() {
        if vc(&it.add_clock) != add {
            *inc = Some("Orswot iter() add_clock differs from read()".into());
        }
        if w.insert(*it.val, vc(&it.rm_clock)).is_some() {
            *inc = Some("Orswot iter() yields a member twice".into());
        }
    }
    if w.keys().cloned().collect::<Vec<_>>() != members {
        *inc = Some(format!("Orswot iter() members {:?} != read() {:?}", w.keys().collect::<Vec<_>>(), members));
    }
    for m in 0..nm().max(4).max(wide()) {
        let c = s.contains(&m);
        if c.val != members.contains(&m) {
            *inc = Some(format!("Orswot contains({m}).val={} but read()={members:?}", c.val));
        }
        if vc(&c.add_clock) != add {
            *inc = Some("Orswot contains() add_clock differs from read()".into());
        }
        let cw = vc(&c.rm_clock);
        if c.val && w.get(&m) != Some(&cw) {
            *inc = Some(format!("Orswot contains({m}).rm_clock differs from iter()"));
        }
        if !c.val && !cw.is_empty() {
            *inc = Some(format!("Orswot contains({m}) absent but rm_clock non-empty"));
        }
    }
    let reads = Dump::Seq(members.iter().map(|m| Dump::u(*m as u64)).collect());
    let wd = Dump::Map(w.iter().map(|(m, c)| (Dump::u(*m as u64), Dump::clk(c))).collect());
    (ValObs { reads, w: wd, nested: Dump::Unit }, add, rm_all)
}

fn os_template(role: u8, rng: &mut Rng) -> Cmd {
    let m = [0u64, 0, 0, 1, 1, 2][rng.below(6)];
    match role {
        0 => match rng.below(6) {
            0 => Cmd::new("add_all", vec![m, (m + 1) % 3]),
            1 => Cmd::new("add_all", vec![0, 1, 2]),
            _ => Cmd::new("add", vec![m]),
        },
        1 => Cmd::new("rm", vec![m]).src(["contains", "iter", "read", "read_ctx"][rng.below(4)]),
        _ => Cmd::new("rm_all", vec![m, (m + 1) % 3]).src("read"),
    }
}

fn os_random(rng: &mut Rng) -> Cmd {
    let m = rand_member(rng);
    let dom = if wide() > 0 { wide() } else { nm() } as u64;
    let m2 = (m + 1) % dom;
    let c = rng.below(10);
    let stale = rng.chance(1, 3);
    if wide() > 0 && (c == 5 || c == 9) && rng.chance(2, 3) {
        // big batches: 5-8 consecutive members
        let batch: Vec<u64> = (0..5 + rng.below(4) as u64).map(|i| (m + i) % dom).collect();
        return if c == 5 { Cmd::new("add_all", batch) } else { Cmd::new("rm_all", batch).src(if rng.chance(1, 2) { "read" } else { "read_ctx" }).stale(stale) };
    }
    if c < 5 {
        Cmd::new("add", vec![m])
    } else if c == 5 {
        // a batch filtered down to nothing still consumes the dot
        if rng.chance(1, 8) {
            Cmd::new("add_all", vec![])
        } else {
            Cmd::new("add_all", vec![m, m2])
        }
    } else if c < 9 {
        // single-member remove: context of that member (contains / iter item) or "what I have seen" from a
        // whole-set read (several such removes issued from one state carry the *same* context clock)
        let src = ["contains", "contains", "iter", "iter", "read", "read_ctx"][rng.below(6)];
        Cmd::new("rm", vec![m]).src(src).stale(stale)
    } else {
        Cmd::new("rm_all", vec![m, m2]).src(if rng.chance(1, 2) { "read" } else { "read_ctx" }).stale(stale)
    }
}

/// interpret one Orswot command (top-level set: `dot` None for removes; nested: the enclosing update's dot)
fn os_exec(s: &OS, cmd: &Cmd, old: Option<&OS>, acc: &mut GenAcc, path: &[u8], dot: Option<DotT>, add_ctx: Option<AddCtx<A>>) -> orswot::Op<u8, A> {
    let dot_or = dot.unwrap_or((255, 0));
    let ms: Vec<u8> = cmd.a.iter().map(|m| *m as u8).collect();
    match cmd.k.as_str() {
        "add" | "add_all" if add_ctx.is_some() => {
            acc.desc += &format!("{}({ms:?})", cmd.k);
            acc.facts.push(Fact::Up { dot: dot_or, path: path.to_vec(), leaf: Leaf::Add(ms.clone()) });
            if cmd.k == "add" {
                s.add(ms[0], add_ctx.unwrap())
            } else {
                s.add_all(ms, add_ctx.unwrap())
            }
        }
        _ => {
            let stale = if cmd.stale { old } else { None };
            let src = stale.unwrap_or(s);
            let tag = if stale.is_some() { "stale " } else { "" };
            let m = ms.first().cloned().unwrap_or(0);
            let rc = match cmd.src.as_str() {
                "iter" => match src.iter().find(|it| *it.val == m) {
                    Some(it) => it.derive_rm_ctx(),
                    None => src.contains(&m).derive_rm_ctx(),
                },
                "read" => src.read().derive_rm_ctx(),
                "read_ctx" => src.read_ctx().derive_rm_ctx(),
                _ => src.contains(&m).derive_rm_ctx(),
            };
            let clk = vc(&rc.clock);
            let ms = if ms.is_empty() { vec![0] } else { ms };
            acc.desc += &format!("{}({ms:?}) {tag}{} ctx{clk:?}", if cmd.k == "rm_all" { "rm_all" } else { "rm" }, cmd.src);
            acc.rm_ctxs.push(clk.clone());
            acc.facts.push(Fact::Up { dot: dot_or, path: path.to_vec(), leaf: Leaf::SetRm(clk, ms.clone()) });
            if cmd.k == "rm_all" {
                s.rm_all(ms, rc)
            } else {
                s.rm(ms[0], rc)
            }
        }
    }
}

impl NestedVal for OS {
    const DEPTH: usize = 0;
    const LEAF_REG: bool = false;
    fn random_nested(rng: &mut Rng) -> Cmd {
        os_random(rng)
    }
    fn template_nested(role: u8, rng: &mut Rng) -> Cmd {
        os_template(role, rng)
    }
    fn gen_nested(&self, ctx: AddCtx<A>, cmd: &Cmd, path: &[u8], dot: DotT, _sh: &mut Shadow, old: Option<&Self>, acc: &mut GenAcc) -> Self::Op {
        os_exec(self, cmd, old, acc, path, Some(dot), Some(ctx))
    }
    fn aging_op(&self, ctx: AddCtx<A>) -> Self::Op {
        self.add(255, ctx)
    }
    fn obs(&self, inc: &mut Option<String>) -> ValObs {
        os_obs(self, inc).0
    }
}

impl Sut for OS {
    type Op = orswot::Op<u8, A>;
    const NAME: &'static str = "OS";
    const WEAKEST: Delivery = Delivery::Fifo;
    const HAS_RESET: bool = true;
    fn new() -> Self {
        Orswot::new()
    }
    fn random_cmd(rng: &mut Rng, _sh: &Shadow) -> Cmd {
        // top level: a little more than half of the commands are adds
        loop {
            let c = os_random(rng);
            let is_add = c.k.starts_with("add");
            if is_add || rng.chance(2, 3) {
                return c;
            }
        }
    }
    fn template_cmd(role: u8, rng: &mut Rng) -> Option<Cmd> {
        Some(os_template(role, rng))
    }
    fn aged(base: &[(A, u64)]) -> Option<Self> {
        let mut s = Orswot::new();
        for (a, b) in base {
            let op = s.add(255, aging_ctx(*a, *b));
            s.apply(op);
        }
        let rm = s.rm(255, s.contains(&255).derive_rm_ctx());
        s.apply(rm);
        Some(s)
    }
    fn gen(&self, actor: A, cmd: &Cmd, sh: &mut Shadow, old: &Self) -> Option<Gen<Self::Op>> {
        let mut acc = GenAcc { facts: vec![], desc: String::new(), rf_vals: vec![], rm_ctxs: vec![] };
        if cmd.k == "add" || cmd.k == "add_all" {
            if cmd.k == "add" && cmd.a.is_empty() {
                return None;
            }
            let (ctx, d) = derive_j(self.read_ctx(), actor, cmd.jump);
            let want = sh.take_dot_j(actor, cmd.jump);
            let op = os_exec(self, cmd, Some(old), &mut acc, &[], Some(want), Some(ctx));
            let mut g = Gen::new(op, acc.desc);
            g.facts = acc.facts;
            g.want_dot = Some(want);
            g.derived = d;
            g.jumped = cmd.jump > 0;
            Some(g)
        } else {
            let op = os_exec(self, cmd, Some(old), &mut acc, &[], None, None);
            let mut g = Gen::new(op, acc.desc);
            g.facts = acc.facts;
            g.rm_ctxs = acc.rm_ctxs;
            Some(g)
        }
    }
    fn apply_op(&mut self, op: Self::Op) {
        self.apply(op)
    }
    fn merge_from(&mut self, other: Self) {
        self.merge(other)
    }
    fn observe(&self) -> Obs {
        let mut inc = None;
        let (v, add, rm_all) = os_obs(self, &mut inc);
        if vc(&self.clock()) != add {
            inc = Some("Orswot clock() differs from read().add_clock".into());
        }
        Obs { reads: v.reads, ctx: Dump::rec(vec![("add", Dump::clk(&add)), ("w", v.w), ("nested", Dump::Unit), ("rm_all", Dump::clk(&rm_all))]), incoherent: inc }
    }
    fn spec(inp: &SpecIn) -> Obs {
        spec::map_spec(inp, 0, false)
    }
    fn validate_op_s(&self, op: &Self::Op) -> Result<(), String> {
        self.validate_op(op).map_err(|e| format!("{e:?}"))
    }
    fn validate_merge_s(&self, other: &Self) -> Result<(), String> {
        self.validate_merge(other).map_err(|e| format!("{e:?}"))
    }
    fn reset_remove_c(&mut self, c: &Clk) {
        self.reset_remove(&mkvc(c))
    }
    fn inject_future_remove(&mut self, ctx: &Clk, target: u8) {
        self.apply(orswot::Op::Rm { clock: mkvc(ctx), members: vec![target] });
    }
    fn next_dot(&self, actor: A) -> Option<(DotT, Clk, Clk)> {
        Some(derive(self.read_ctx(), actor).1)
    }
}

// ---------------- MVReg ----------------
fn mv_obs(r: &MV, inc: &mut Option<String>) -> (ValObs, Clk) {
    let rd = r.read();
    let add = vc(&rd.add_clock);
    if vc(&rd.rm_clock) != add {
        *inc = Some("MVReg read(): rm_clock != add_clock".into());
    }
    let rc = r.read_ctx();
    if vc(&rc.add_clock) != add || vc(&rc.rm_clock) != add {
        *inc = Some("MVReg read_ctx() and read() contexts differ".into());
    }
    let mut vals = rd.val.clone();
    vals.sort();
    (ValObs { reads: Dump::Seq(vals.into_iter().map(|v| Dump::u(v as u64)).collect()), w: Dump::Unit, nested: Dump::Unit }, add)
}

impl NestedVal for MV {
    const DEPTH: usize = 0;
    const LEAF_REG: bool = true;
    fn random_nested(_rng: &mut Rng) -> Cmd {
        Cmd::new("write", vec![])
    }
    fn template_nested(_role: u8, _rng: &mut Rng) -> Cmd {
        Cmd::new("write", vec![])
    }
    fn gen_nested(&self, ctx: AddCtx<A>, _cmd: &Cmd, path: &[u8], dot: DotT, sh: &mut Shadow, _old: Option<&Self>, acc: &mut GenAcc) -> Self::Op {
        let val = sh.uniq();
        acc.rf_vals = self.read().val;
        acc.desc += &format!("write({val})");
        acc.facts.push(Fact::Up { dot, path: path.to_vec(), leaf: Leaf::Put(vc(&ctx.clock), val) });
        self.write(val, ctx)
    }
    fn aging_op(&self, ctx: AddCtx<A>) -> Self::Op {
        self.write(0, ctx)
    }
    fn obs(&self, inc: &mut Option<String>) -> ValObs {
        mv_obs(self, inc).0
    }
}

impl Sut for MV {
    type Op = mvreg::Op<u32, A>;
    const NAME: &'static str = "MV";
    const WEAKEST: Delivery = Delivery::Any;
    const HAS_RESET: bool = true;
    fn new() -> Self {
        MVReg::new()
    }
    fn random_cmd(rng: &mut Rng, sh: &Shadow) -> Cmd {
        let c = Cmd::new(if sh.equal_vals { "write_val" } else { "write" }, vec![1000 + rng.below(2) as u64]);
        c.src(if rng.chance(1, 2) { "read_ctx" } else { "read" })
    }
    fn gen(&self, actor: A, cmd: &Cmd, sh: &mut Shadow, _old: &Self) -> Option<Gen<Self::Op>> {
        let (ctx, d) = derive_j(if cmd.src == "read" { self.read().split().1 } else { self.read_ctx() }, actor, cmd.jump);
        let uniq = sh.uniq();
        // equal-values configuration ("write_val"): concurrent writers deliberately write the same payload
        let val = if cmd.k == "write_val" { cmd.arg(0) as u32 } else { uniq };
        sh.nwrites[actor as usize] += 1 + cmd.jump;
        let idx = sh.nwrites[actor as usize];
        let rf_vals = self.read().val;
        let op = self.write(val, ctx);
        let mut g = Gen::new(op, format!("write({val})"));
        g.facts.push(Fact::MvPut { val, actor, idx });
        g.want_dot = Some((actor, idx));
        g.derived = d;
        g.jumped = cmd.jump > 0;
        g.rf_vals = rf_vals;
        Some(g)
    }
    fn apply_op(&mut self, op: Self::Op) {
        self.apply(op)
    }
    fn merge_from(&mut self, other: Self) {
        self.merge(other)
    }
    fn observe(&self) -> Obs {
        let mut inc = None;
        let (v, add) = mv_obs(self, &mut inc);
        Obs { reads: v.reads, ctx: Dump::clk(&add), incoherent: inc }
    }
    fn spec(inp: &SpecIn) -> Obs {
        spec::mv_spec(inp)
    }
    fn validate_op_s(&self, op: &Self::Op) -> Result<(), String> {
        self.validate_op(op).map_err(|e| format!("{e:?}"))
    }
    fn validate_merge_s(&self, other: &Self) -> Result<(), String> {
        self.validate_merge(other).map_err(|e| format!("{e:?}"))
    }
    fn reset_remove_c(&mut self, c: &Clk) {
        self.reset_remove(&mkvc(c))
    }
    fn next_dot(&self, actor: A) -> Option<(DotT, Clk, Clk)> {
        Some(derive(self.read_ctx(), actor).1)
    }
}

// ---------------- Map (any depth) ----------------
fn same_val<V: serde::Serialize>(a: &V, b: &V) -> bool {
    std::ptr::eq(a, b) || crate::dump::dump_norm(a) == crate::dump::dump_norm(b)
}

fn map_obs<V: NestedVal>(m: &Map<u8, V, A>, inc: &mut Option<String>) -> (ValObs, Clk, Clk)
where
    V: Clone,
{
    let rc = m.read_ctx();
    let add = vc(&rc.add_clock);
    let rm_all = vc(&rc.rm_clock);
    let len = m.len();
    let ie = m.is_empty();
    for (n, (a, r)) in [("len", (&len.add_clock, &len.rm_clock)), ("is_empty", (&ie.add_clock, &ie.rm_clock))] {
        if vc(a) != add || vc(r) != rm_all {
            *inc = Some(format!("Map {n}() contexts differ from read_ctx()"));
        }
    }
    let keys: Vec<(u8, Clk)> = m.keys().map(|k| (*k.val, vc(&k.rm_clock))).collect();
    if len.val != keys.len() || ie.val != keys.is_empty() {
        *inc = Some(format!("Map len()={} is_empty()={} but keys()={:?}", len.val, ie.val, keys));
    }
    for k in m.keys() {
        if vc(&k.add_clock) != add {
            *inc = Some("Map keys() add_clock differs from read_ctx()".into());
        }
    }
    let mut reads = vec![];
    let mut wit = vec![];
    let mut nested = vec![];
    let items: Vec<_> = m.iter().collect();
    let vals: Vec<_> = m.values().collect();
    if items.len() != keys.len() || vals.len() != keys.len() {
        *inc = Some("Map iter()/values()/keys() lengths differ".into());
    }
    for (i, it) in items.iter().enumerate() {
        let (k, v) = it.val;
        let w = vc(&it.rm_clock);
        if vc(&it.add_clock) != add {
            *inc = Some("Map iter() add_clock differs from read_ctx()".into());
        }
        if keys.get(i) != Some(&(*k, w.clone())) {
            *inc = Some(format!("Map iter() item {k} disagrees with keys()"));
        }
        if let Some(vv) = vals.get(i) {
            // values are compared through their dumps: the observation record must not depend on the crate's own `==`
            if vc(&vv.rm_clock) != w || !same_val(vv.val, v) || vc(&vv.add_clock) != add {
                *inc = Some(format!("Map values() item {i} disagrees with iter()"));
            }
        }
        let g = m.get(k);
        if !g.val.as_ref().map(|x| same_val(x, v)).unwrap_or(false) || vc(&g.rm_clock) != w || vc(&g.add_clock) != add {
            *inc = Some(format!("Map get({k}) disagrees with iter()"));
        }
        let vo = v.obs(inc);
        reads.push((Dump::u(*k as u64), vo.reads));
        wit.push((Dump::u(*k as u64), Dump::clk(&w)));
        nested.push((Dump::u(*k as u64), Dump::rec(vec![("w", vo.w), ("nested", vo.nested)])));
    }
    for k in 0..nk().max(3).max(wide()) {
        if !keys.iter().any(|(kk, _)| *kk == k) {
            let g = m.get(&k);
            if g.val.is_some() || !g.rm_clock.is_empty() {
                *inc = Some(format!("Map get({k}) present/with context but not in keys()"));
            }
        }
    }
    (ValObs { reads: Dump::Map(reads), w: Dump::Map(wit), nested: Dump::Map(nested) }, add, rm_all)
}

fn map_rm_random(rng: &mut Rng) -> Cmd {
    let src = ["read_ctx", "len", "keys", "iter", "get", "get", "get", "get"][rng.below(8)];
    Cmd::new("rm_key", vec![rand_key(rng)]).src(src).stale(rng.chance(1, 3))
}

/// a key removal at this map level; records the context it used
fn map_rm_exec<V: NestedVal>(m: &Map<u8, V, A>, cmd: &Cmd, old: Option<&Map<u8, V, A>>, acc: &mut GenAcc, path: &[u8], carrier: Option<DotT>) -> map::Op<u8, V, A> {
    let k = cmd.arg(0) as u8;
    let stale = if cmd.stale { old } else { None };
    let src = stale.unwrap_or(m);
    let tag = if stale.is_some() { "stale " } else { "" };
    let rc = match cmd.src.as_str() {
        "read_ctx" => src.read_ctx().derive_rm_ctx(),
        "len" => src.len().derive_rm_ctx(),
        "keys" => match src.keys().find(|it| *it.val == k) {
            Some(it) => it.derive_rm_ctx(),
            None => src.get(&k).derive_rm_ctx(),
        },
        "iter" => match src.iter().find(|it| *it.val.0 == k) {
            Some(it) => it.derive_rm_ctx(),
            None => src.get(&k).derive_rm_ctx(),
        },
        _ => src.get(&k).derive_rm_ctx(),
    };
    let clk = vc(&rc.clock);
    let mut kp = path.to_vec();
    kp.push(k);
    acc.desc += &format!("rm key {kp:?} {tag}{} ctx{clk:?}", cmd.src);
    acc.rm_ctxs.push(clk.clone());
    acc.facts.push(Fact::Rm { ctx: clk, path: kp, carrier });
    m.rm(k, rc)
}

impl<V: NestedVal> NestedVal for Map<u8, V, A>
where
    V: Clone,
    V::Op: Clone,
{
    const DEPTH: usize = V::DEPTH + 1;
    const LEAF_REG: bool = V::LEAF_REG;
    fn random_nested(rng: &mut Rng) -> Cmd {
        if rng.below(10) < 7 {
            Cmd::new("update", vec![rand_key(rng)]).sub(V::random_nested(rng))
        } else {
            map_rm_random(rng)
        }
    }
    fn template_nested(role: u8, rng: &mut Rng) -> Cmd {
        // the nested remover either removes the hot inner key or removes deeper inside it
        if role == 1 && (V::DEPTH == 0 && V::LEAF_REG || rng.chance(1, 2)) {
            Cmd::new("rm_key", vec![0]).src(["get", "keys", "read_ctx"][rng.below(3)])
        } else {
            Cmd::new("update", vec![0]).sub(V::template_nested(role, rng))
        }
    }
    fn gen_nested(&self, ctx: AddCtx<A>, cmd: &Cmd, path: &[u8], dot: DotT, sh: &mut Shadow, old: Option<&Self>, acc: &mut GenAcc) -> Self::Op {
        match (&cmd.k[..], &cmd.sub) {
            ("update", Some(sub)) => {
                let k = cmd.arg(0) as u8;
                let mut kp = path.to_vec();
                kp.push(k);
                let old_v = old.and_then(|o| o.get(&k).val);
                acc.desc += &format!("[{k}].");
                self.update(k, ctx, |v, c| v.gen_nested(c, sub, &kp, dot, sh, old_v.as_ref(), acc))
            }
            _ => {
                // inner key removal: carried by the enclosing update, whose dot still witnesses the outer key
                acc.facts.push(Fact::Up { dot, path: path.to_vec(), leaf: Leaf::None });
                map_rm_exec(self, cmd, old, acc, path, Some(dot))
            }
        }
    }
    fn aging_op(&self, ctx: AddCtx<A>) -> Self::Op {
        self.update(255, ctx, |v, c| v.aging_op(c))
    }
    fn obs(&self, inc: &mut Option<String>) -> ValObs {
        map_obs(self, inc).0
    }
}

pub fn map_random<V: NestedVal>(rng: &mut Rng) -> Cmd {
    if rng.below(10) < 7 {
        let src = ["len", "is_empty", "read_ctx"][rng.below(3)];
        Cmd::new("update", vec![rand_key(rng)]).src(src).sub(V::random_nested(rng))
    } else {
        map_rm_random(rng)
    }
}

pub fn map_gen<V: NestedVal + Clone>(m: &Map<u8, V, A>, actor: A, cmd: &Cmd, sh: &mut Shadow, old: &Map<u8, V, A>) -> Option<Gen<map::Op<u8, V, A>>>
where
    V::Op: Clone,
{
    let mut acc = GenAcc { facts: vec![], desc: String::new(), rf_vals: vec![], rm_ctxs: vec![] };
    match (&cmd.k[..], &cmd.sub) {
        ("update", Some(sub)) => {
            let rc = match cmd.src.as_str() {
                "len" => m.len().split().1,
                "is_empty" => m.is_empty().split().1,
                _ => m.read_ctx(),
            };
            let (ctx, d) = derive_j(rc, actor, cmd.jump);
            let want = sh.take_dot_j(actor, cmd.jump);
            let k = cmd.arg(0) as u8;
            let old_v = old.get(&k).val;
            acc.desc = format!("update [{k}].");
            let op = m.update(k, ctx, |v, c| v.gen_nested(c, sub, &[k], want, sh, old_v.as_ref(), &mut acc));
            let mut g = Gen::new(op, acc.desc);
            g.facts = acc.facts;
            g.rf_vals = acc.rf_vals;
            g.rm_ctxs = acc.rm_ctxs;
            g.want_dot = Some(want);
            g.derived = d;
            g.jumped = cmd.jump > 0;
            Some(g)
        }
        ("rm_key", _) => {
            let op = map_rm_exec(m, cmd, Some(old), &mut acc, &[], None);
            let mut g = Gen::new(op, acc.desc);
            g.facts = acc.facts;
            g.rm_ctxs = acc.rm_ctxs;
            Some(g)
        }
        _ => None,
    }
}

/// value type of a concrete map alias
pub trait MapOf {
    type V: NestedVal;
}
impl<V: NestedVal> MapOf for Map<u8, V, A> {
    type V = V;
}

macro_rules! impl_map_sut {
    ($t:ty, $name:expr) => {
        impl Sut for $t {
            type Op = <$t as CmRDT>::Op;
            const NAME: &'static str = $name;
            const WEAKEST: Delivery = Delivery::Fifo;
            const IS_MAP: bool = true;
            const ANYK_OK: bool = !<$t as NestedVal>::LEAF_REG;
            const HAS_RESET: bool = true;
            fn new() -> Self {
                Map::new()
            }
            fn random_cmd(rng: &mut Rng, _sh: &Shadow) -> Cmd {
                map_random::<<$t as MapOf>::V>(rng)
            }
            fn template_cmd(role: u8, rng: &mut Rng) -> Option<Cmd> {
                Some(if role == 2 {
                    Cmd::new("rm_key", vec![0]).src(["get", "iter", "read_ctx", "len"][rng.below(4)])
                } else {
                    Cmd::new("update", vec![0]).src("read_ctx").sub(<<$t as MapOf>::V as NestedVal>::template_nested(role, rng))
                })
            }
            fn aged(base: &[(A, u64)]) -> Option<Self> {
                let mut m: $t = Map::new();
                for (a, b) in base {
                    let op = m.update(255, aging_ctx(*a, *b), |v, c| v.aging_op(c));
                    m.apply(op);
                }
                let rm = m.rm(255, m.get(&255).derive_rm_ctx());
                m.apply(rm);
                Some(m)
            }
            fn gen(&self, actor: A, cmd: &Cmd, sh: &mut Shadow, old: &Self) -> Option<Gen<Self::Op>> {
                map_gen(self, actor, cmd, sh, old)
            }
            fn apply_op(&mut self, op: Self::Op) {
                self.apply(op)
            }
            fn merge_from(&mut self, other: Self) {
                self.merge(other)
            }
            fn observe(&self) -> Obs {
                let mut inc = None;
                let (v, add, rm_all) = map_obs(self, &mut inc);
                Obs { reads: v.reads, ctx: Dump::rec(vec![("add", Dump::clk(&add)), ("w", v.w), ("nested", v.nested), ("rm_all", Dump::clk(&rm_all))]), incoherent: inc }
            }
            fn spec(inp: &SpecIn) -> Obs {
                spec::map_spec(inp, <$t as NestedVal>::DEPTH, <$t as NestedVal>::LEAF_REG)
            }
            fn validate_op_s(&self, op: &Self::Op) -> Result<(), String> {
                self.validate_op(op).map_err(|e| format!("{e:?}"))
            }
            fn validate_merge_s(&self, other: &Self) -> Result<(), String> {
                self.validate_merge(other).map_err(|e| format!("{e:?}"))
            }
            fn reset_remove_c(&mut self, c: &Clk) {
                self.reset_remove(&mkvc(c))
            }
            fn inject_future_remove(&mut self, ctx: &Clk, target: u8) {
                self.apply(map::Op::Rm { clock: mkvc(ctx), keyset: [target].into_iter().collect() });
            }
            fn next_dot(&self, actor: A) -> Option<(DotT, Clk, Clk)> {
                Some(derive(self.read_ctx(), actor).1)
            }
        }
    };
}
impl_map_sut!(MO, "MO");
impl_map_sut!(MM, "MM");
impl_map_sut!(MMO, "MMO");
impl_map_sut!(MMM, "MMM");
impl_map_sut!(MMMO, "MMMO");
