//! Orswot, MVReg and (nested) Map adapters.
use crate::dump::Dump;
use crate::rng::Rng;
use crate::spec;
use crate::sut::*;
use crdts::ctx::{AddCtx, ReadCtx};
use crdts::{map, mvreg, orswot, CmRDT, CvRDT, MVReg, Map, Orswot, ResetRemove};
use std::collections::BTreeMap;

pub type OS = Orswot<u8, A>;
pub type MV = MVReg<u32, A>;
pub type MO = Map<u8, OS, A>;
pub type MM = Map<u8, MV, A>;
pub type MMO = Map<u8, MO, A>;
pub type MMM = Map<u8, MM, A>;
pub type MMMO = Map<u8, MMO, A>;

fn derive<V>(rc: ReadCtx<V, A>, actor: A) -> (AddCtx<A>, (DotT, Clk, Clk)) {
    let add_clock = vc(&rc.add_clock);
    let ctx = rc.derive_add_ctx(actor);
    let d = ((ctx.dot.actor, ctx.dot.counter), vc(&ctx.clock), add_clock);
    (ctx, d)
}

/// scratch area filled while an op is being generated (also from inside `Map::update` closures)
pub struct GenAcc {
    pub facts: Vec<Fact>,
    pub desc: String,
    pub rf_vals: Vec<u32>,
    pub rm_ctxs: Vec<Clk>,
}

/// observation of one value: (reads, element witnesses, nested contexts)
pub struct ValObs {
    pub reads: Dump,
    pub w: Dump,
    pub nested: Dump,
}

pub trait NestedVal: map::Val<A> + CvRDT + PartialEq + std::fmt::Debug {
    const DEPTH: usize;
    const LEAF_REG: bool;
    /// generate a nested op for the value at `path` (the enclosing update carries `dot`)
    fn gen_nested(&self, ctx: AddCtx<A>, cr: &mut Rng, path: &[u8], dot: DotT, sh: &mut Shadow, old: Option<&Self>, acc: &mut GenAcc) -> Self::Op;
    fn obs(&self, inc: &mut Option<String>) -> ValObs;
}

// ---------------- Orswot ----------------
fn os_obs(s: &OS, inc: &mut Option<String>) -> (ValObs, Clk, Clk) {
    let r = s.read();
    let add = vc(&r.add_clock);
    let rm_all = vc(&r.rm_clock);
    let mut members: Vec<u8> = r.val.iter().cloned().collect();
    members.sort();
    let rc = s.read_ctx();
    if vc(&rc.add_clock) != add || vc(&rc.rm_clock) != rm_all {
        *inc = Some("Orswot read_ctx() and read() contexts differ".into());
    }
    let mut w: BTreeMap<u8, Clk> = BTreeMap::new();
    for it in s.iter() {
        if vc(&it.add_clock) != add {
            *inc = Some("Orswot iter() add_clock differs from read()".into());
        }
        if w.insert(*it.val, vc(&it.rm_clock)).is_some() {
            *inc = Some("Orswot iter() yields a member twice".into());
        }
    }
    if w.keys().cloned().collect::<Vec<_>>() != members {
        *inc = Some(format!("Orswot iter() members {:?} != read() {:?}", w.keys().collect::<Vec<_>>(), members));
    }
    for m in 0..nm().max(4) {
        let c = s.contains(&m);
        if c.val != members.contains(&m) {
            *inc = Some(format!("Orswot contains({m}).val={} but read()={members:?}", c.val));
        }
        if vc(&c.add_clock) != add {
            *inc = Some("Orswot contains() add_clock differs from read()".into());
        }
        let cw = vc(&c.rm_clock);
        if c.val && w.get(&m) != Some(&cw) {
            *inc = Some(format!("Orswot contains({m}).rm_clock differs from iter()"));
        }
        if !c.val && !cw.is_empty() {
            *inc = Some(format!("Orswot contains({m}) absent but rm_clock non-empty"));
        }
    }
    let reads = Dump::Seq(members.iter().map(|m| Dump::u(*m as u64)).collect());
    let wd = Dump::Map(w.iter().map(|(m, c)| (Dump::u(*m as u64), Dump::clk(c))).collect());
    (ValObs { reads, w: wd, nested: Dump::Unit }, add, rm_all)
}

/// one Orswot command; `top` = top-level set (its own dots) vs nested under a map update
fn os_cmd(s: &OS, cr: &mut Rng, old: Option<&OS>, acc: &mut GenAcc, path: &[u8], dot: Option<DotT>, add_ctx: Option<AddCtx<A>>, may_add: bool) -> orswot::Op<u8, A> {
    let m = cr.below(nm() as usize) as u8;
    let m2 = (m + 1) % nm();
    let c = cr.below(10);
    let dot_or = dot.unwrap_or((255, 0));
    if may_add && c < 5 {
        acc.desc += &format!("add({m})");
        acc.facts.push(Fact::Up { dot: dot_or, path: path.to_vec(), leaf: Leaf::Add(vec![m]) });
        return s.add(m, add_ctx.unwrap());
    }
    if may_add && c == 5 && cr.chance(1, 8) {
        acc.desc += "add_all([])";
        acc.facts.push(Fact::Up { dot: dot_or, path: path.to_vec(), leaf: Leaf::Add(vec![]) });
        return s.add_all(Vec::<u8>::new(), add_ctx.unwrap());
    }
    if may_add && c == 5 {
        acc.desc += &format!("add_all([{m},{m2}])");
        acc.facts.push(Fact::Up { dot: dot_or, path: path.to_vec(), leaf: Leaf::Add(vec![m, m2]) });
        return s.add_all(vec![m, m2], add_ctx.unwrap());
    }
    let stale = old.filter(|_| cr.chance(1, 3));
    let src = stale.unwrap_or(s);
    let tag = if stale.is_some() { "stale " } else { "" };
    if c < 9 {
        // single-member remove from contains() or from the iter() item of that member
        let rc = match cr.below(5) {
            0 | 1 => src.contains(&m).derive_rm_ctx(),
            2 | 3 => match src.iter().find(|it| *it.val == m) {
                Some(it) => it.derive_rm_ctx(),
                None => src.contains(&m).derive_rm_ctx(),
            },
            // "remove what I have seen of m" from a whole-set read: several such removes issued
            // from one state carry the *same* context clock
            _ => {
                if cr.chance(1, 2) {
                    src.read().derive_rm_ctx()
                } else {
                    src.read_ctx().derive_rm_ctx()
                }
            }
        };
        let clk = vc(&rc.clock);
        acc.desc += &format!("rm({m}) {tag}ctx{clk:?}");
        acc.rm_ctxs.push(clk.clone());
        acc.facts.push(Fact::Up { dot: dot_or, path: path.to_vec(), leaf: Leaf::SetRm(clk, vec![m]) });
        s.rm(m, rc)
    } else {
        // "remove what I have seen" from a whole-set read
        let rc = src.read().derive_rm_ctx();
        let clk = vc(&rc.clock);
        acc.desc += &format!("rm_all([{m},{m2}]) {tag}ctx{clk:?}");
        acc.rm_ctxs.push(clk.clone());
        acc.facts.push(Fact::Up { dot: dot_or, path: path.to_vec(), leaf: Leaf::SetRm(clk, vec![m, m2]) });
        s.rm_all(vec![m, m2], rc)
    }
}

impl NestedVal for OS {
    const DEPTH: usize = 0;
    const LEAF_REG: bool = false;
    fn gen_nested(&self, ctx: AddCtx<A>, cr: &mut Rng, path: &[u8], dot: DotT, _sh: &mut Shadow, old: Option<&Self>, acc: &mut GenAcc) -> Self::Op {
        os_cmd(self, cr, old, acc, path, Some(dot), Some(ctx), true)
    }
    fn obs(&self, inc: &mut Option<String>) -> ValObs {
        os_obs(self, inc).0
    }
}

impl Sut for OS {
    type Op = orswot::Op<u8, A>;
    const NAME: &'static str = "OS";
    const WEAKEST: Delivery = Delivery::Fifo;
    const HAS_RESET: bool = true;
    fn new() -> Self {
        Orswot::new()
    }
    fn gen(&self, actor: A, cmd: (u8, u8, u8), sh: &mut Shadow, old: &Self) -> Option<Gen<Self::Op>> {
        let mut cr = Rng::new(((cmd.0 as u64) << 16) | ((cmd.1 as u64) << 8) | cmd.2 as u64);
        let mut acc = GenAcc { facts: vec![], desc: String::new(), rf_vals: vec![], rm_ctxs: vec![] };
        let is_add = cr.below(10) < 6;
        if is_add {
            let (ctx, d) = derive(self.read_ctx(), actor);
            let want = sh.take_dot(actor);
            // force the add branch of os_cmd
            let m = cr.below(nm() as usize) as u8;
            let m2 = (m + 1) % nm();
            let op = if cr.below(40) == 0 {
                // a batch filtered down to nothing still consumes the dot
                acc.desc = "add_all([])".to_string();
                acc.facts.push(Fact::Up { dot: want, path: vec![], leaf: Leaf::Add(vec![]) });
                self.add_all(Vec::<u8>::new(), ctx)
            } else if cr.below(6) == 0 {
                acc.desc = format!("add_all([{m},{m2}])");
                acc.facts.push(Fact::Up { dot: want, path: vec![], leaf: Leaf::Add(vec![m, m2]) });
                self.add_all(vec![m, m2], ctx)
            } else {
                acc.desc = format!("add({m})");
                acc.facts.push(Fact::Up { dot: want, path: vec![], leaf: Leaf::Add(vec![m]) });
                self.add(m, ctx)
            };
            let mut g = Gen::new(op, acc.desc);
            g.facts = acc.facts;
            g.want_dot = Some(want);
            g.derived = Some(d);
            Some(g)
        } else {
            let op = os_cmd(self, &mut cr, Some(old), &mut acc, &[], None, None, false);
            let mut g = Gen::new(op, acc.desc);
            g.facts = acc.facts;
            g.rm_ctxs = acc.rm_ctxs;
            Some(g)
        }
    }
    fn apply_op(&mut self, op: Self::Op) {
        self.apply(op)
    }
    fn merge_from(&mut self, other: Self) {
        self.merge(other)
    }
    fn observe(&self) -> Obs {
        let mut inc = None;
        let (v, add, rm_all) = os_obs(self, &mut inc);
        if vc(&self.clock()) != add {
            inc = Some("Orswot clock() differs from read().add_clock".into());
        }
        Obs { reads: v.reads, ctx: Dump::rec(vec![("add", Dump::clk(&add)), ("w", v.w), ("nested", Dump::Unit), ("rm_all", Dump::clk(&rm_all))]), incoherent: inc }
    }
    fn spec(inp: &SpecIn) -> Obs {
        spec::map_spec(inp, 0, false)
    }
    fn validate_op_s(&self, op: &Self::Op) -> Result<(), String> {
        self.validate_op(op).map_err(|e| format!("{e:?}"))
    }
    fn validate_merge_s(&self, other: &Self) -> Result<(), String> {
        self.validate_merge(other).map_err(|e| format!("{e:?}"))
    }
    fn reset_remove_c(&mut self, c: &Clk) {
        self.reset_remove(&mkvc(c))
    }
    fn next_dot(&self, actor: A) -> Option<(DotT, Clk, Clk)> {
        Some(derive(self.read_ctx(), actor).1)
    }
}

// ---------------- MVReg ----------------
fn mv_obs(r: &MV, inc: &mut Option<String>) -> (ValObs, Clk) {
    let rd = r.read();
    let add = vc(&rd.add_clock);
    if vc(&rd.rm_clock) != add {
        *inc = Some("MVReg read(): rm_clock != add_clock".into());
    }
    let rc = r.read_ctx();
    if vc(&rc.add_clock) != add || vc(&rc.rm_clock) != add {
        *inc = Some("MVReg read_ctx() and read() contexts differ".into());
    }
    let mut vals = rd.val.clone();
    vals.sort();
    (ValObs { reads: Dump::Seq(vals.into_iter().map(|v| Dump::u(v as u64)).collect()), w: Dump::Unit, nested: Dump::Unit }, add)
}

impl NestedVal for MV {
    const DEPTH: usize = 0;
    const LEAF_REG: bool = true;
    fn gen_nested(&self, ctx: AddCtx<A>, _cr: &mut Rng, path: &[u8], dot: DotT, sh: &mut Shadow, _old: Option<&Self>, acc: &mut GenAcc) -> Self::Op {
        let val = sh.uniq();
        acc.rf_vals = self.read().val;
        acc.desc += &format!("write({val})");
        acc.facts.push(Fact::Up { dot, path: path.to_vec(), leaf: Leaf::Put(vc(&ctx.clock), val) });
        self.write(val, ctx)
    }
    fn obs(&self, inc: &mut Option<String>) -> ValObs {
        mv_obs(self, inc).0
    }
}

impl Sut for MV {
    type Op = mvreg::Op<u32, A>;
    const NAME: &'static str = "MV";
    const WEAKEST: Delivery = Delivery::Any;
    const HAS_RESET: bool = true;
    fn new() -> Self {
        MVReg::new()
    }
    fn gen(&self, actor: A, cmd: (u8, u8, u8), sh: &mut Shadow, _old: &Self) -> Option<Gen<Self::Op>> {
        let (ctx, d) = derive(if cmd.0 % 2 == 0 { self.read_ctx() } else { self.read().split().1 }, actor);
        let uniq = sh.uniq();
        // equal-values configuration: concurrent writers deliberately write the same payload
        let val = if sh.equal_vals { 1000 + (cmd.1 % 2) as u32 } else { uniq };
        sh.nwrites[actor as usize] += 1;
        let idx = sh.nwrites[actor as usize];
        let rf_vals = self.read().val;
        let op = self.write(val, ctx);
        let mut g = Gen::new(op, format!("write({val})"));
        g.facts.push(Fact::MvPut { val, actor, idx });
        g.want_dot = Some((actor, idx));
        g.derived = Some(d);
        g.rf_vals = rf_vals;
        Some(g)
    }
    fn apply_op(&mut self, op: Self::Op) {
        self.apply(op)
    }
    fn merge_from(&mut self, other: Self) {
        self.merge(other)
    }
    fn observe(&self) -> Obs {
        let mut inc = None;
        let (v, add) = mv_obs(self, &mut inc);
        Obs { reads: v.reads, ctx: Dump::clk(&add), incoherent: inc }
    }
    fn spec(inp: &SpecIn) -> Obs {
        spec::mv_spec(inp)
    }
    fn validate_op_s(&self, op: &Self::Op) -> Result<(), String> {
        self.validate_op(op).map_err(|e| format!("{e:?}"))
    }
    fn validate_merge_s(&self, other: &Self) -> Result<(), String> {
        self.validate_merge(other).map_err(|e| format!("{e:?}"))
    }
    fn reset_remove_c(&mut self, c: &Clk) {
        self.reset_remove(&mkvc(c))
    }
    fn next_dot(&self, actor: A) -> Option<(DotT, Clk, Clk)> {
        Some(derive(self.read_ctx(), actor).1)
    }
}

// ---------------- Map (any depth) ----------------
fn map_obs<V: NestedVal>(m: &Map<u8, V, A>, inc: &mut Option<String>) -> (ValObs, Clk, Clk)
where
    V: Clone,
{
    let rc = m.read_ctx();
    let add = vc(&rc.add_clock);
    let rm_all = vc(&rc.rm_clock);
    let len = m.len();
    let ie = m.is_empty();
    for (n, (a, r)) in [("len", (&len.add_clock, &len.rm_clock)), ("is_empty", (&ie.add_clock, &ie.rm_clock))] {
        if vc(a) != add || vc(r) != rm_all {
            *inc = Some(format!("Map {n}() contexts differ from read_ctx()"));
        }
    }
    let keys: Vec<(u8, Clk)> = m.keys().map(|k| (*k.val, vc(&k.rm_clock))).collect();
    if len.val != keys.len() || ie.val != keys.is_empty() {
        *inc = Some(format!("Map len()={} is_empty()={} but keys()={:?}", len.val, ie.val, keys));
    }
    for k in m.keys() {
        if vc(&k.add_clock) != add {
            *inc = Some("Map keys() add_clock differs from read_ctx()".into());
        }
    }
    let mut reads = vec![];
    let mut wit = vec![];
    let mut nested = vec![];
    let items: Vec<_> = m.iter().collect();
    let vals: Vec<_> = m.values().collect();
    if items.len() != keys.len() || vals.len() != keys.len() {
        *inc = Some("Map iter()/values()/keys() lengths differ".into());
    }
    for (i, it) in items.iter().enumerate() {
        let (k, v) = it.val;
        let w = vc(&it.rm_clock);
        if vc(&it.add_clock) != add {
            *inc = Some("Map iter() add_clock differs from read_ctx()".into());
        }
        if keys.get(i) != Some(&(*k, w.clone())) {
            *inc = Some(format!("Map iter() item {k} disagrees with keys()"));
        }
        if let Some(vv) = vals.get(i) {
            if vc(&vv.rm_clock) != w || vv.val != v || vc(&vv.add_clock) != add {
                *inc = Some(format!("Map values() item {i} disagrees with iter()"));
            }
        }
        let g = m.get(k);
        if g.val.as_ref() != Some(v) || vc(&g.rm_clock) != w || vc(&g.add_clock) != add {
            *inc = Some(format!("Map get({k}) disagrees with iter()"));
        }
        let vo = v.obs(inc);
        reads.push((Dump::u(*k as u64), vo.reads));
        wit.push((Dump::u(*k as u64), Dump::clk(&w)));
        nested.push((Dump::u(*k as u64), Dump::rec(vec![("w", vo.w), ("nested", vo.nested)])));
    }
    for k in 0..nk().max(3) {
        if !keys.iter().any(|(kk, _)| *kk == k) {
            let g = m.get(&k);
            if g.val.is_some() || !g.rm_clock.is_empty() {
                *inc = Some(format!("Map get({k}) present/with context but not in keys()"));
            }
        }
    }
    (ValObs { reads: Dump::Map(reads), w: Dump::Map(wit), nested: Dump::Map(nested) }, add, rm_all)
}

/// a key removal at this map level; returns (op, fact-less) and records the context
fn map_rm_cmd<V: NestedVal>(m: &Map<u8, V, A>, cr: &mut Rng, old: Option<&Map<u8, V, A>>, acc: &mut GenAcc, path: &[u8], carrier: Option<DotT>) -> map::Op<u8, V, A> {
    let k = cr.below(nk() as usize) as u8;
    let stale = old.filter(|_| cr.chance(1, 3));
    let src = stale.unwrap_or(m);
    let tag = if stale.is_some() { "stale " } else { "" };
    let (rc, how) = match cr.below(8) {
        0 => (src.read_ctx().derive_rm_ctx(), "read_ctx"),
        1 => (src.len().derive_rm_ctx(), "len"),
        2 => match src.keys().find(|it| *it.val == k) {
            Some(it) => (it.derive_rm_ctx(), "keys"),
            None => (src.get(&k).derive_rm_ctx(), "get"),
        },
        3 => match src.iter().find(|it| *it.val.0 == k) {
            Some(it) => (it.derive_rm_ctx(), "iter"),
            None => (src.get(&k).derive_rm_ctx(), "get"),
        },
        _ => (src.get(&k).derive_rm_ctx(), "get"),
    };
    let clk = vc(&rc.clock);
    let mut kp = path.to_vec();
    kp.push(k);
    acc.desc += &format!("rm key {kp:?} {tag}{how} ctx{clk:?}");
    acc.rm_ctxs.push(clk.clone());
    acc.facts.push(Fact::Rm { ctx: clk, path: kp, carrier });
    m.rm(k, rc)
}

impl<V: NestedVal> NestedVal for Map<u8, V, A>
where
    V: Clone,
    V::Op: Clone,
{
    const DEPTH: usize = V::DEPTH + 1;
    const LEAF_REG: bool = V::LEAF_REG;
    fn gen_nested(&self, ctx: AddCtx<A>, cr: &mut Rng, path: &[u8], dot: DotT, sh: &mut Shadow, old: Option<&Self>, acc: &mut GenAcc) -> Self::Op {
        if cr.below(10) < 7 {
            let k = cr.below(nk() as usize) as u8;
            let mut kp = path.to_vec();
            kp.push(k);
            let old_v = old.and_then(|o| o.get(&k).val);
            acc.desc += &format!("[{k}].");
            self.update(k, ctx, |v, c| v.gen_nested(c, cr, &kp, dot, sh, old_v.as_ref(), acc))
        } else {
            // inner key removal: carried by the enclosing update, whose dot still witnesses the outer key
            acc.facts.push(Fact::Up { dot, path: path.to_vec(), leaf: Leaf::None });
            map_rm_cmd(self, cr, old, acc, path, Some(dot))
        }
    }
    fn obs(&self, inc: &mut Option<String>) -> ValObs {
        map_obs(self, inc).0
    }
}

pub fn map_gen<V: NestedVal + Clone>(m: &Map<u8, V, A>, actor: A, cmd: (u8, u8, u8), sh: &mut Shadow, old: &Map<u8, V, A>) -> Option<Gen<map::Op<u8, V, A>>>
where
    V::Op: Clone,
{
    let mut cr = Rng::new(((cmd.0 as u64) << 16) | ((cmd.1 as u64) << 8) | cmd.2 as u64);
    let mut acc = GenAcc { facts: vec![], desc: String::new(), rf_vals: vec![], rm_ctxs: vec![] };
    if cr.below(10) < 7 {
        let rc = match cr.below(3) {
            0 => m.len().split().1,
            1 => m.is_empty().split().1,
            _ => m.read_ctx(),
        };
        let (ctx, d) = derive(rc, actor);
        let want = sh.take_dot(actor);
        let k = cr.below(nk() as usize) as u8;
        let old_v = old.get(&k).val;
        acc.desc = format!("update [{k}].");
        let op = m.update(k, ctx, |v, c| v.gen_nested(c, &mut cr, &[k], want, sh, old_v.as_ref(), &mut acc));
        let mut g = Gen::new(op, acc.desc);
        g.facts = acc.facts;
        g.rf_vals = acc.rf_vals;
        g.rm_ctxs = acc.rm_ctxs;
        g.want_dot = Some(want);
        g.derived = Some(d);
        Some(g)
    } else {
        let op = map_rm_cmd(m, &mut cr, Some(old), &mut acc, &[], None);
        let mut g = Gen::new(op, acc.desc);
        g.facts = acc.facts;
        g.rm_ctxs = acc.rm_ctxs;
        Some(g)
    }
}

macro_rules! impl_map_sut {
    ($t:ty, $name:expr) => {
        impl Sut for $t {
            type Op = <$t as CmRDT>::Op;
            const NAME: &'static str = $name;
            const WEAKEST: Delivery = Delivery::Fifo;
            const IS_MAP: bool = true;
            const ANYK_OK: bool = !<$t as NestedVal>::LEAF_REG;
            const HAS_RESET: bool = true;
            fn new() -> Self {
                Map::new()
            }
            fn gen(&self, actor: A, cmd: (u8, u8, u8), sh: &mut Shadow, old: &Self) -> Option<Gen<Self::Op>> {
                map_gen(self, actor, cmd, sh, old)
            }
            fn apply_op(&mut self, op: Self::Op) {
                self.apply(op)
            }
            fn merge_from(&mut self, other: Self) {
                self.merge(other)
            }
            fn observe(&self) -> Obs {
                let mut inc = None;
                let (v, add, rm_all) = map_obs(self, &mut inc);
                Obs { reads: v.reads, ctx: Dump::rec(vec![("add", Dump::clk(&add)), ("w", v.w), ("nested", v.nested), ("rm_all", Dump::clk(&rm_all))]), incoherent: inc }
            }
            fn spec(inp: &SpecIn) -> Obs {
                spec::map_spec(inp, <$t as NestedVal>::DEPTH, <$t as NestedVal>::LEAF_REG)
            }
            fn validate_op_s(&self, op: &Self::Op) -> Result<(), String> {
                self.validate_op(op).map_err(|e| format!("{e:?}"))
            }
            fn validate_merge_s(&self, other: &Self) -> Result<(), String> {
                self.validate_merge(other).map_err(|e| format!("{e:?}"))
            }
            fn reset_remove_c(&mut self, c: &Clk) {
                self.reset_remove(&mkvc(c))
            }
            fn next_dot(&self, actor: A) -> Option<(DotT, Clk, Clk)> {
                Some(derive(self.read_ctx(), actor).1)
            }
        }
    };
}
impl_map_sut!(MO, "MO");
impl_map_sut!(MM, "MM");
impl_map_sut!(MMO, "MMO");
impl_map_sut!(MMM, "MMM");
impl_map_sut!(MMMO, "MMMO");
