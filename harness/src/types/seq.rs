//! GList, List and MerkleReg adapters.
use crate::dump::{dump, Dump};
use crate::rng::Rng;
use crate::sut::*;
use crdts::merkle_reg::{MerkleReg, Node};
use crdts::{glist, list, CmRDT, CvRDT, GList, List};
use std::collections::{BTreeMap, BTreeSet};

fn seq_dump(v: &[u32]) -> Dump {
    Dump::Seq(v.iter().map(|e| Dump::u(*e as u64)).collect())
}
fn as_set(d: &Dump) -> BTreeSet<u128> {
    d.as_seq().iter().filter_map(|x| x.as_u()).collect()
}

// ---------------- GList ----------------
pub type GL = GList<u32>;
impl Sut for GL {
    type Op = glist::Op<u32>;
    const NAME: &'static str = "GL";
    const WIDE_PREFIX: usize = 70;
    const WEAKEST: Delivery = Delivery::Any;
    fn new() -> Self {
        GList::new()
    }
    fn random_cmd(rng: &mut Rng, _sh: &Shadow) -> Cmd {
        let k = ["insert", "insert_after", "insert_before"][rng.below(3)];
        // a = [position mode, raw index]: 0 = head, 1 = tail, otherwise raw index modulo the live length
        // a[2] = 1: (equal-values configuration only) insert a value that is already in the list
        Cmd::new(k, vec![rng.below(4) as u64, rng.below(250) as u64, rng.below(3) as u64, rng.below(250) as u64])
    }
    fn gen(&self, _actor: A, cmd: &Cmd, sh: &mut Shadow, _old: &Self) -> Option<Gen<Self::Op>> {
        let before: Vec<u32> = self.read::<Vec<&u32>>().into_iter().cloned().collect();
        let len = before.len();
        let mut elem = sh.uniq();
        if sh.equal_vals && len > 0 && cmd.arg(2) == 1 {
            // GList uses the element itself as the identifier's marker: equal values next to each other are legal
            elem = before[cmd.arg(3) as usize % len];
        }
        let mut model = before.clone();
        let (mode, raw) = (cmd.arg(0), cmd.arg(1) as usize);
        let pick = |n: usize| -> usize {
            match mode {
                0 => 0,
                1 => n.saturating_sub(1),
                _ => raw % n.max(1),
            }
        };
        let (op, desc) = match cmd.k.as_str() {
            "insert_after" if len > 0 => {
                let ix = pick(len);
                let id = self.get(ix).unwrap().clone();
                model.insert(ix + 1, elem);
                (self.insert_after(Some(&id), elem), format!("insert_after(#{ix}, {elem})"))
            }
            "insert_before" if len > 0 => {
                let ix = pick(len);
                let id = self.get(ix).unwrap().clone();
                model.insert(ix, elem);
                (self.insert_before(Some(&id), elem), format!("insert_before(#{ix}, {elem})"))
            }
            _ => {
                let ix = match mode {
                    0 => 0,
                    1 => len,
                    _ => raw % (len + 1),
                };
                model.insert(ix, elem);
                (self.insert(ix, elem), format!("insert({ix}, {elem})"))
            }
        };
        let mut g = Gen::new(op, desc);
        g.facts.push(Fact::GIns { elem });
        g.expect_seq = Some(model);
        Some(g)
    }
    fn apply_op(&mut self, op: Self::Op) {
        self.apply(op)
    }
    fn merge_from(&mut self, other: Self) {
        self.merge(other)
    }
    fn observe(&self) -> Obs {
        let seq: Vec<u32> = self.read::<Vec<&u32>>().into_iter().cloned().collect();
        let mut inc = None;
        if self.len() != seq.len() || self.is_empty() != seq.is_empty() {
            inc = Some("GList len/is_empty disagree with read()".into());
        }
        let ids: Vec<_> = self.iter().cloned().collect();
        for (i, id) in ids.iter().enumerate() {
            if self.get(i) != Some(id) || *id.value() != seq[i] {
                inc = Some(format!("GList get({i}) disagrees with iter()/read()"));
            }
            if i > 0 && !(ids[i - 1] < *id) {
                inc = Some(format!("GList identifiers not strictly increasing at {i}"));
            }
        }
        if self.first() != ids.first() || self.last() != ids.last() {
            inc = Some("GList first()/last() disagree with iter()".into());
        }
        let into: Vec<u32> = self.clone().read_into();
        if into != seq {
            inc = Some("GList read_into() differs from read()".into());
        }
        Obs { reads: Dump::rec(vec![("seq", seq_dump(&seq)), ("ids", dump(&ids))]), ctx: Dump::Unit, incoherent: inc }
    }
    fn spec(inp: &SpecIn) -> Obs {
        let s: BTreeSet<u32> = inp.facts.iter().filter_map(|(_, f)| if let Fact::GIns { elem } = f { Some(*elem) } else { None }).collect();
        Obs { reads: seq_dump(&s.into_iter().collect::<Vec<_>>()), ctx: Dump::Unit, incoherent: None }
    }
    fn reads_match(obs: &Obs, spec: &Obs) -> bool {
        let seq = obs.reads.field("seq").map(|d| d.as_seq().len()).unwrap_or(0);
        let set = obs.reads.field("seq").map(as_set).unwrap_or_default();
        set.len() == seq && set == as_set(&spec.reads)
    }
    fn validate_op_s(&self, op: &Self::Op) -> Result<(), String> {
        self.validate_op(op).map_err(|e| format!("{e:?}"))
    }
    fn validate_merge_s(&self, other: &Self) -> Result<(), String> {
        self.validate_merge(other).map_err(|e| format!("{e:?}"))
    }
}

// ---------------- List ----------------
pub type LI = List<u32, A>;
impl Sut for LI {
    type Op = list::Op<u32, A>;
    const NAME: &'static str = "LI";
    const WIDE_PREFIX: usize = 70;
    const WEAKEST: Delivery = Delivery::Causal;
    const HAS_MERGE: bool = false;
    fn new() -> Self {
        List::new()
    }
    fn random_cmd(rng: &mut Rng, _sh: &Shadow) -> Cmd {
        let c = rng.below(10);
        let k = if c < 3 { "delete" } else if c == 9 { "append" } else { "insert" };
        // a = [position mode, raw index]; hostile positions: 0 head, 1 tail, 2 beyond the end, 3 a shared
        // "hot" index so that replicas collide, otherwise raw index modulo the live length
        Cmd::new(k, vec![rng.below(6) as u64, rng.below(250) as u64])
    }
    fn template_cmd(role: u8, rng: &mut Rng) -> Option<Cmd> {
        // everybody edits around the same two positions: concurrent inserts at one index give sibling identifiers
        // with equal rationals, inserting between those gives nested paths, deletes hit what others insert next to
        let ix = [1u64, 1, 1, 1, 0, 2, 2, 3][rng.below(8)];
        Some(match role {
            1 => Cmd::new("delete", vec![4, ix]),
            // local tail of a template: runs of inserts at neighbouring positions, deletes in between
            r if r >= 32 => Cmd::new("delete", vec![4, (r - 32) as u64]),
            r if r >= 16 => Cmd::new("insert", vec![4, (r - 16) as u64]),
            _ => Cmd::new("insert", vec![4, ix]),
        })
    }
    fn aged(base: &[(A, u64)]) -> Option<Self> {
        // every actor's latest op was the delete of an element that is gone: empty sequence, clock = base
        let mut l = List::new();
        for (a, b) in base {
            let id = crdts::Identifier::between(None, None, crdts::OrdDot { actor: *a, counter: *b });
            l.apply(list::Op::Delete { id, dot: crdts::Dot::new(*a, *b) });
        }
        Some(l)
    }
    fn gen(&self, actor: A, cmd: &Cmd, sh: &mut Shadow, _old: &Self) -> Option<Gen<Self::Op>> {
        let before: Vec<u32> = self.read::<Vec<&u32>>().into_iter().cloned().collect();
        let len = before.len();
        let mut model = before.clone();
        let (mode, raw) = (cmd.arg(0), cmd.arg(1) as usize);
        let ix_of = |n: usize| -> usize {
            match mode {
                0 => 0,
                1 => n,
                2 => n + 2,
                3 => 1.min(n),
                _ => raw % (n + 1),
            }
        };
        if cmd.k == "delete" {
            if mode == 2 {
                // an index past the end names no element: delete_index must decline (None); if it hands out an
                // op anyway, the Vec model says nothing may disappear
                let ix = len + (raw % 3);
                return match self.delete_index(ix, actor) {
                    None => None,
                    Some(op) => {
                        let want = sh.take_dot(actor);
                        let mut g = Gen::new(op, format!("delete_index({ix}) on a list of {len}"));
                        g.want_dot = Some(want);
                        g.facts.push(Fact::Ins { elem: 0, dot: want });
                        g.facts.push(Fact::Del { elem: 0, dot: want });
                        g.expect_seq = Some(model);
                        Some(g)
                    }
                };
            }
            if len == 0 {
                return None;
            }
            let ix = ix_of(len - 1).min(len - 1);
            let mut op = self.delete_index(ix, actor)?;
            let elem = model.remove(ix);
            let want = sh.take_dot_j(actor, cmd.jump);
            if cmd.jump > 0 {
                // fast-forward: the same delete, carrying the author's dot `jump` counters further on
                op = list::Op::Delete { id: op.id().clone(), dot: crdts::Dot::new(want.0, want.1) };
            }
            let od = op.dot();
            let mut g = Gen::new(op, format!("delete_index({ix}) = elem {elem}"));
            g.jumped = cmd.jump > 0;
            g.op_dot = Some((od.actor, od.counter));
            g.facts.push(Fact::Del { elem, dot: want });
            g.want_dot = Some(want);
            g.expect_seq = Some(model);
            Some(g)
        } else {
            let elem = sh.uniq();
            let (op, desc) = if cmd.k == "append" {
                model.push(elem);
                (self.append(elem, actor), format!("append({elem})"))
            } else {
                let ix = ix_of(len);
                model.insert(ix.min(len), elem);
                (self.insert_index(ix, elem, actor), format!("insert_index({ix}, {elem})"))
            };
            let want = sh.take_dot_j(actor, cmd.jump);
            let mut op = op;
            if cmd.jump > 0 {
                // fast-forward: the identifier insert_index would mint between the same neighbours, tagged with
                // the author's dot `jump` counters further on
                let ix = if cmd.k == "append" { len } else { ix_of(len).min(len) };
                let keys: Vec<_> = self.iter_entries().map(|(id, _)| id.clone()).collect();
                let prev = if ix > 0 { keys.get(ix - 1) } else { None };
                let id = crdts::Identifier::between(prev, keys.get(ix), crdts::OrdDot { actor: want.0, counter: want.1 });
                op = list::Op::Insert { id, val: elem };
            }
            let od = op.dot();
            let idv = op.id().value().clone();
            let mut g = Gen::new(op, desc);
            g.jumped = cmd.jump > 0;
            g.op_dot = Some((od.actor, od.counter));
            if (idv.actor, idv.counter) != (od.actor, od.counter) {
                // an insert's identifier must be tagged with the op's own dot
                g.op_dot = Some((idv.actor, u64::MAX));
            }
            g.facts.push(Fact::Ins { elem, dot: want });
            g.want_dot = Some(want);
            g.expect_seq = Some(model);
            Some(g)
        }
    }
    fn apply_op(&mut self, op: Self::Op) {
        self.apply(op)
    }
    fn observe(&self) -> Obs {
        let seq: Vec<u32> = self.read::<Vec<&u32>>().into_iter().cloned().collect();
        let mut inc = None;
        if self.len() != seq.len() || self.is_empty() != seq.is_empty() {
            inc = Some("List len/is_empty disagree with read()".into());
        }
        if self.iter().cloned().collect::<Vec<u32>>() != seq {
            inc = Some("List iter() differs from read()".into());
        }
        let entries: Vec<_> = self.iter_entries().map(|(id, v)| (id.clone(), *v)).collect();
        if entries.len() != seq.len() {
            inc = Some("List iter_entries() length differs from read()".into());
        }
        for (i, (id, v)) in entries.iter().enumerate() {
            if seq.get(i) != Some(v) || self.position(i) != Some(v) || self.get(id) != Some(v) || self.position_entry(id) != Some(i) {
                inc = Some(format!("List position/get/position_entry disagree at {i}"));
            }
            if i > 0 && !(entries[i - 1].0 < *id) {
                inc = Some(format!("List identifiers not strictly increasing at {i}"));
            }
        }
        if self.position(seq.len()).is_some() {
            inc = Some("List position(len) is Some".into());
        }
        if self.first() != seq.first() || self.last() != seq.last() || self.first_entry().map(|e| e.0) != entries.first().map(|e| &e.0) || self.last_entry().map(|e| e.0) != entries.last().map(|e| &e.0) {
            inc = Some("List first/last disagree with read()".into());
        }
        let into: Vec<u32> = self.clone().read_into();
        let into2: Vec<u32> = self.clone().into_iter().collect();
        if into != seq || into2 != seq {
            inc = Some("List read_into()/into_iter() differ from read()".into());
        }
        let ids: Vec<_> = entries.iter().map(|e| e.0.clone()).collect();
        Obs { reads: Dump::rec(vec![("seq", seq_dump(&seq)), ("ids", dump(&ids))]), ctx: Dump::Unit, incoherent: inc }
    }
    fn spec(inp: &SpecIn) -> Obs {
        let mut s: BTreeSet<u32> = BTreeSet::new();
        for (_, f) in inp.facts {
            if let Fact::Ins { elem, .. } = f {
                s.insert(*elem);
            }
        }
        for (_, f) in inp.facts {
            if let Fact::Del { elem, .. } = f {
                s.remove(elem);
            }
        }
        Obs { reads: seq_dump(&s.into_iter().collect::<Vec<_>>()), ctx: Dump::Unit, incoherent: None }
    }
    fn reads_match(obs: &Obs, spec: &Obs) -> bool {
        let seq = obs.reads.field("seq").map(|d| d.as_seq().len()).unwrap_or(0);
        let set = obs.reads.field("seq").map(as_set).unwrap_or_default();
        set.len() == seq && set == as_set(&spec.reads)
    }
    fn validate_op_s(&self, op: &Self::Op) -> Result<(), String> {
        self.validate_op(op).map_err(|e| format!("{e:?}"))
    }
}

// ---------------- MerkleReg ----------------
pub type MK = MerkleReg<String>;
fn hx(h: &[u8; 32]) -> Dump {
    Dump::Str(h[..6].iter().map(|b| format!("{b:02x}")).collect())
}
impl Sut for MK {
    type Op = Node<String>;
    const NAME: &'static str = "MK";
    const WIDE_PREFIX: usize = 30;
    const WEAKEST: Delivery = Delivery::Any;
    fn new() -> Self {
        MerkleReg::new()
    }
    fn random_cmd(rng: &mut Rng, _sh: &Shadow) -> Cmd {
        match rng.below(6) {
            // on top of everything read (resolves the fork)
            0 | 1 | 2 => Cmd::new("write_heads", vec![]),
            // on top of a subset of the heads (keeps the fork alive): a = [bit mask]
            3 => Cmd::new("write_subset", vec![rng.below(256) as u64]),
            // on top of arbitrary visible nodes (shared ancestors, fan-in): a = [how many, offset]
            4 => Cmd::new("write_any", vec![rng.below(4) as u64, rng.below(250) as u64]),
            _ => Cmd::new("write_root", vec![]),
        }
    }
    fn gen(&self, _actor: A, cmd: &Cmd, sh: &mut Shadow, _old: &Self) -> Option<Gen<Self::Op>> {
        let heads: Vec<[u8; 32]> = self.read().hashes().into_iter().collect();
        let mut children: BTreeSet<[u8; 32]> = BTreeSet::new();
        match cmd.k.as_str() {
            "write_heads" => children.extend(heads.iter().cloned()),
            "write_subset" => {
                for (i, h) in heads.iter().enumerate() {
                    if (cmd.arg(0) >> (i % 8)) & 1 == 1 {
                        children.insert(*h);
                    }
                }
            }
            "write_any" => {
                let all: Vec<[u8; 32]> = self.all_nodes().map(|n| n.hash()).collect();
                for i in 0..cmd.arg(0) as usize {
                    if !all.is_empty() {
                        children.insert(all[(cmd.arg(1) as usize + i * 7) % all.len()]);
                    }
                }
            }
            _ => {}
        }
        let idx = sh.next_op_id;
        let val = format!("v{}", sh.uniq());
        let node = self.write(val.clone(), children.clone());
        let hash = node.hash();
        let kids: Vec<usize> = children.iter().filter_map(|h| sh.node_of_hash.get(h).cloned()).collect();
        if kids.len() != children.len() {
            return None;
        }
        sh.node_of_hash.insert(hash, idx);
        let mut g = Gen::new(node, format!("write({val}) on {kids:?}"));
        g.facts.push(Fact::Node { idx, children: kids, hash });
        Some(g)
    }
    fn apply_op(&mut self, op: Self::Op) {
        self.apply(op)
    }
    fn merge_from(&mut self, other: Self) {
        self.merge(other)
    }
    fn observe(&self) -> Obs {
        let mut inc = None;
        let rd = self.read();
        let heads = rd.hashes();
        if rd.is_empty() != heads.is_empty() || rd.values().count() != heads.len() || rd.nodes().count() != heads.len() {
            inc = Some("MerkleReg Content accessors disagree".into());
        }
        for (h, n) in rd.hashes_and_nodes() {
            if n.hash() != h {
                inc = Some("MerkleReg head hash does not match node".into());
            }
        }
        let mut nodes: BTreeMap<[u8; 32], Dump> = BTreeMap::new();
        for n in self.all_nodes() {
            let h = n.hash();
            if self.node(h) != Some(n) {
                inc = Some("MerkleReg node(h) disagrees with all_nodes()".into());
            }
            let ch: Vec<Dump> = self.children(h).hashes().iter().map(hx).collect();
            let pa: Vec<Dump> = self.parents(h).hashes().iter().map(hx).collect();
            nodes.insert(h, Dump::rec(vec![("val", Dump::s(&n.value)), ("children", Dump::Seq(ch)), ("parents", Dump::Seq(pa))]));
        }
        if nodes.len() != self.num_nodes() {
            inc = Some("MerkleReg num_nodes() != all_nodes().count()".into());
        }
        let reads = Dump::rec(vec![
            ("heads", Dump::Seq(heads.iter().map(hx).collect())),
            ("num_nodes", Dump::u(self.num_nodes() as u64)),
            ("num_orphans", Dump::u(self.num_orphans() as u64)),
            ("nodes", Dump::Map(nodes.iter().map(|(h, d)| (hx(h), d.clone())).collect())),
        ]);
        Obs { reads, ctx: Dump::Unit, incoherent: inc }
    }
    fn spec(inp: &SpecIn) -> Obs {
        let ns: BTreeMap<usize, (&Vec<usize>, &[u8; 32])> = inp.facts.iter().filter_map(|(_, f)| if let Fact::Node { idx, children, hash } = f { Some((*idx, (children, hash))) } else { None }).collect();
        let mut vis: BTreeSet<usize> = BTreeSet::new();
        loop {
            let mut ch = false;
            for (i, (kids, _)) in &ns {
                if !vis.contains(i) && kids.iter().all(|k| vis.contains(k)) {
                    vis.insert(*i);
                    ch = true;
                }
            }
            if !ch {
                break;
            }
        }
        let is_child = |i: usize| vis.iter().any(|p| ns[p].0.contains(&i));
        let mut heads: Vec<&[u8; 32]> = vis.iter().filter(|i| !is_child(**i)).map(|i| ns[i].1).collect();
        heads.sort();
        let mut nodes: BTreeMap<[u8; 32], Dump> = BTreeMap::new();
        for i in &vis {
            let mut ch: Vec<&[u8; 32]> = ns[i].0.iter().map(|k| ns[k].1).collect();
            ch.sort();
            let mut pa: Vec<&[u8; 32]> = vis.iter().filter(|p| ns[p].0.contains(i)).map(|p| ns[p].1).collect();
            pa.sort();
            let val = inp.facts.iter().find_map(|(id, f)| if let Fact::Node { idx, .. } = f { if idx == i { Some(*id) } else { None } } else { None });
            let _ = val;
            nodes.insert(*ns[i].1, Dump::rec(vec![("children", Dump::Seq(ch.into_iter().map(hx).collect())), ("parents", Dump::Seq(pa.into_iter().map(hx).collect()))]));
        }
        let reads = Dump::rec(vec![
            ("heads", Dump::Seq(heads.into_iter().map(hx).collect())),
            ("num_nodes", Dump::u(vis.len() as u64)),
            ("num_orphans", Dump::u((ns.len() - vis.len()) as u64)),
            ("nodes", Dump::Map(nodes.iter().map(|(h, d)| (hx(h), d.clone())).collect())),
        ]);
        Obs { reads, ctx: Dump::Unit, incoherent: None }
    }
    fn reads_match(obs: &Obs, spec: &Obs) -> bool {
        // the model does not know node payloads: compare everything but `val`
        let strip = |d: &Dump| -> Dump {
            match d {
                Dump::Struct(n, fs) => Dump::Struct(
                    n,
                    fs.iter()
                        .map(|(k, v)| {
                            if *k == "nodes" {
                                (*k, Dump::Map(v.as_map().iter().map(|(h, nd)| (h.clone(), match nd { Dump::Struct(n2, f2) => Dump::Struct(n2, f2.iter().filter(|(k2, _)| *k2 != "val").cloned().collect()), x => x.clone() })).collect()))
                            } else {
                                (*k, v.clone())
                            }
                        })
                        .collect(),
                ),
                x => x.clone(),
            }
        };
        strip(&obs.reads) == strip(&spec.reads)
    }
    fn validate_op_s(&self, op: &Self::Op) -> Result<(), String> {
        self.validate_op(op).map_err(|e| format!("{e:?}"))
    }
    fn validate_merge_s(&self, other: &Self) -> Result<(), String> {
        self.validate_merge(other).map_err(|e| format!("{e:?}"))
    }
}
