//! VClock, GCounter, PNCounter, GSet, LWWReg, MaxReg, MinReg adapters.
use crate::dump::Dump;
use crate::rng::Rng;
use crate::sut::*;
use crdts::{CmRDT, CvRDT, GCounter, GSet, LWWReg, MaxReg, MinReg, PNCounter, ResetRemove, VClock};
use std::collections::BTreeSet;

fn plain(reads: Dump) -> Obs {
    Obs { reads, ctx: Dump::Unit, incoherent: None }
}

// ---------------- VClock ----------------
pub type VC = VClock<A>;
impl Sut for VC {
    type Op = crdts::Dot<A>;
    const NAME: &'static str = "VC";
    const WEAKEST: Delivery = Delivery::Any;
    const HAS_RESET: bool = true;
    fn new() -> Self {
        VClock::new()
    }
    fn random_cmd(_rng: &mut Rng, _sh: &Shadow) -> Cmd {
        Cmd::new("inc", vec![])
    }
    fn gen(&self, actor: A, _cmd: &Cmd, sh: &mut Shadow, _old: &Self) -> Option<Gen<Self::Op>> {
        let op = self.inc(actor);
        let want = sh.take_dot(actor);
        let mut g = Gen::new(op, format!("inc({actor})"));
        g.facts.push(Fact::Dot(want));
        g.want_dot = Some(want);
        Some(g)
    }
    fn apply_op(&mut self, op: Self::Op) {
        self.apply(op)
    }
    fn merge_from(&mut self, other: Self) {
        self.merge(other)
    }
    fn observe(&self) -> Obs {
        let mut inc = None;
        let by_get: Clk = (0..=255u8).filter_map(|a| if self.get(&a) > 0 { Some((a, self.get(&a))) } else { None }).collect();
        let by_iter: Clk = self.iter().map(|d| (*d.actor, d.counter)).collect();
        if by_get != by_iter || self.is_empty() != by_iter.is_empty() {
            inc = Some(format!("get/iter/is_empty disagree: {by_get:?} vs {by_iter:?}"));
        }
        if by_iter.values().any(|n| *n == 0) {
            inc = Some("zero counter stored".into());
        }
        Obs { reads: Dump::clk(&by_iter), ctx: Dump::Unit, incoherent: inc }
    }
    fn spec(inp: &SpecIn) -> Obs {
        let mut c = Clk::new();
        for (_, f) in inp.facts {
            if let Fact::Dot(d) = f {
                cjoin(&mut c, *d);
            }
        }
        plain(Dump::clk(&c))
    }
    fn validate_op_s(&self, op: &Self::Op) -> Result<(), String> {
        self.validate_op(op).map_err(|e| format!("{e:?}"))
    }
    fn validate_merge_s(&self, other: &Self) -> Result<(), String> {
        self.validate_merge(other).map_err(|e| format!("{e:?}"))
    }
    fn reset_remove_c(&mut self, c: &Clk) {
        self.reset_remove(&mkvc(c))
    }
}

// ---------------- GCounter / PNCounter ----------------
fn random_steps(rng: &mut Rng) -> u64 {
    match rng.below(8) {
        0 => 0,
        1 => 1,
        2 => 2,
        3 => 7,
        4 => 1 << 20,
        5 => (1u64 << 40) + 3,
        // per-actor totals near 2^63: the sum over actors leaves the u64 range (reads are big integers)
        6 => (1u64 << 61) + 1,
        _ => rng.below(5) as u64,
    }
}
fn count_spec(inp: &SpecIn, neg: bool) -> u128 {
    let mut best = [0u128; 256];
    for (_, f) in inp.facts {
        if let Fact::Count { actor, neg: n, total } = f {
            if *n == neg {
                best[*actor as usize] = best[*actor as usize].max(*total);
            }
        }
    }
    best.iter().sum()
}

pub type GC = GCounter<A>;
impl Sut for GC {
    type Op = crdts::Dot<A>;
    const NAME: &'static str = "GC";
    const WEAKEST: Delivery = Delivery::Any;
    const HAS_RESET: bool = true;
    fn new() -> Self {
        GCounter::new()
    }
    fn random_cmd(rng: &mut Rng, sh: &Shadow) -> Cmd {
        if sh.equal_vals {
            // "huge" configuration: every actor's total approaches the top of the u64 range
            return Cmd::new("inc_many", vec![(1u64 << 62) + rng.below(1000) as u64]);
        }
        if rng.chance(1, 2) {
            Cmd::new("inc", vec![])
        } else {
            Cmd::new("inc_many", vec![random_steps(rng)])
        }
    }
    fn gen(&self, actor: A, cmd: &Cmd, sh: &mut Shadow, _old: &Self) -> Option<Gen<Self::Op>> {
        let (op, steps, d) = if cmd.k == "inc" {
            (self.inc(actor), 1, "inc".to_string())
        } else {
            let mut s = cmd.arg(0);
            if sh.totals[actor as usize][0] + s as u128 > (3u128 << 62) {
                s = 1; // keep the actor's own running total inside u64
            }
            (self.inc_many(actor, s), s, format!("inc_many({s})"))
        };
        sh.totals[actor as usize][0] += steps as u128;
        let mut g = Gen::new(op, format!("{d} by {actor}"));
        g.facts.push(Fact::Count { actor, neg: false, total: sh.totals[actor as usize][0] });
        Some(g)
    }
    fn apply_op(&mut self, op: Self::Op) {
        self.apply(op)
    }
    fn merge_from(&mut self, other: Self) {
        self.merge(other)
    }
    fn observe(&self) -> Obs {
        plain(Dump::Str(self.read().to_string()))
    }
    fn spec(inp: &SpecIn) -> Obs {
        plain(Dump::Str(count_spec(inp, false).to_string()))
    }
    fn validate_op_s(&self, op: &Self::Op) -> Result<(), String> {
        self.validate_op(op).map_err(|e| format!("{e:?}"))
    }
    fn validate_merge_s(&self, other: &Self) -> Result<(), String> {
        self.validate_merge(other).map_err(|e| format!("{e:?}"))
    }
    fn reset_remove_c(&mut self, c: &Clk) {
        self.reset_remove(&mkvc(c))
    }
}

pub type PN = PNCounter<A>;
impl Sut for PN {
    type Op = crdts::pncounter::Op<A>;
    const NAME: &'static str = "PN";
    const WEAKEST: Delivery = Delivery::Any;
    const HAS_RESET: bool = true;
    fn new() -> Self {
        PNCounter::new()
    }
    fn random_cmd(rng: &mut Rng, sh: &Shadow) -> Cmd {
        if sh.equal_vals {
            return Cmd::new(if rng.chance(2, 3) { "inc_many" } else { "dec_many" }, vec![(1u64 << 62) + rng.below(1000) as u64]);
        }
        match rng.below(4) {
            0 => Cmd::new("inc", vec![]),
            1 => Cmd::new("dec", vec![]),
            2 => Cmd::new("inc_many", vec![random_steps(rng)]),
            _ => Cmd::new("dec_many", vec![random_steps(rng)]),
        }
    }
    fn gen(&self, actor: A, cmd: &Cmd, sh: &mut Shadow, _old: &Self) -> Option<Gen<Self::Op>> {
        let mut s = cmd.arg(0);
        let dir = if cmd.k.starts_with("dec") { 1 } else { 0 };
        if sh.totals[actor as usize][dir] + s as u128 > (3u128 << 62) {
            s = 1; // keep the actor's own running total inside u64
        }
        let (op, neg, steps, d) = match cmd.k.as_str() {
            "inc" => (self.inc(actor), false, 1, "inc".to_string()),
            "dec" => (self.dec(actor), true, 1, "dec".to_string()),
            "inc_many" => (self.inc_many(actor, s), false, s, format!("inc_many({s})")),
            _ => (self.dec_many(actor, s), true, s, format!("dec_many({s})")),
        };
        sh.totals[actor as usize][neg as usize] += steps as u128;
        let mut g = Gen::new(op, format!("{d} by {actor}"));
        g.facts.push(Fact::Count { actor, neg, total: sh.totals[actor as usize][neg as usize] });
        Some(g)
    }
    fn apply_op(&mut self, op: Self::Op) {
        self.apply(op)
    }
    fn merge_from(&mut self, other: Self) {
        self.merge(other)
    }
    fn observe(&self) -> Obs {
        plain(Dump::Str(self.read().to_string()))
    }
    fn spec(inp: &SpecIn) -> Obs {
        let v = count_spec(inp, false) as i128 - count_spec(inp, true) as i128;
        plain(Dump::Str(v.to_string()))
    }
    fn validate_op_s(&self, op: &Self::Op) -> Result<(), String> {
        self.validate_op(op).map_err(|e| format!("{e:?}"))
    }
    fn validate_merge_s(&self, other: &Self) -> Result<(), String> {
        self.validate_merge(other).map_err(|e| format!("{e:?}"))
    }
    fn reset_remove_c(&mut self, c: &Clk) {
        self.reset_remove(&mkvc(c))
    }
}

// ---------------- GSet ----------------
pub type GS = GSet<u32>;
impl Sut for GS {
    type Op = u32;
    const NAME: &'static str = "GS";
    const WEAKEST: Delivery = Delivery::Any;
    fn new() -> Self {
        GSet::new()
    }
    fn random_cmd(rng: &mut Rng, _sh: &Shadow) -> Cmd {
        // (wide profile: 40 possible elements, so that sets of a dozen and more members meet in merges)
        Cmd::new("insert", vec![rng.below(if wide() > 0 { 40 } else { 6 }) as u64])
    }
    fn gen(&self, _actor: A, cmd: &Cmd, _sh: &mut Shadow, _old: &Self) -> Option<Gen<Self::Op>> {
        let e = cmd.arg(0) as u32;
        let mut g = Gen::new(e, format!("insert({e})"));
        g.facts.push(Fact::Elem(e as i64));
        Some(g)
    }
    fn apply_op(&mut self, op: Self::Op) {
        self.apply(op)
    }
    fn merge_from(&mut self, other: Self) {
        self.merge(other)
    }
    fn observe(&self) -> Obs {
        let r = self.read();
        let mut inc = None;
        for e in 0..if wide() > 0 { 40 } else { 8u32 } {
            if self.contains(&e) != r.contains(&e) {
                inc = Some(format!("contains({e}) disagrees with read()"));
            }
        }
        Obs { reads: Dump::Seq(r.iter().map(|e| Dump::u(*e as u64)).collect()), ctx: Dump::Unit, incoherent: inc }
    }
    fn spec(inp: &SpecIn) -> Obs {
        let s: BTreeSet<i64> = inp.facts.iter().filter_map(|(_, f)| if let Fact::Elem(e) = f { Some(*e) } else { None }).collect();
        plain(Dump::Seq(s.into_iter().map(|e| Dump::u(e as u64)).collect()))
    }
    fn validate_op_s(&self, op: &Self::Op) -> Result<(), String> {
        self.validate_op(op).map_err(|e| format!("{e:?}"))
    }
    fn validate_merge_s(&self, other: &Self) -> Result<(), String> {
        self.validate_merge(other).map_err(|e| format!("{e:?}"))
    }
}

// ---------------- LWWReg ----------------
pub type LWW = LWWReg<u32, (u64, u8)>;
impl Sut for LWW {
    type Op = LWW;
    const NAME: &'static str = "LWW";
    const WEAKEST: Delivery = Delivery::Any;
    fn new() -> Self {
        LWWReg::default()
    }
    fn random_cmd(rng: &mut Rng, sh: &Shadow) -> Cmd {
        if sh.misuse {
            // misuse configuration: few markers, reused with different values
            Cmd::new("write_marker", vec![rng.below(3) as u64 + 1, rng.below(2) as u64])
        } else {
            Cmd::new("write", vec![rng.below(4) as u64])
        }
    }
    fn gen(&self, actor: A, cmd: &Cmd, sh: &mut Shadow, _old: &Self) -> Option<Gen<Self::Op>> {
        let val = sh.uniq();
        // unique marker, *not* monotone in issue order: band chosen at random, uniq breaks ties
        let misuse = cmd.k == "write_marker";
        let marker = if misuse { (cmd.arg(0), 0u8) } else { (cmd.arg(0) * 100_000 + val as u64, actor) };
        let val = if misuse { cmd.arg(1) as u32 } else { val };
        let op = LWWReg::new(val, marker);
        let mut g = Gen::new(op, format!("write({val}, marker {marker:?})"));
        g.facts.push(Fact::Lww { val, marker });
        Some(g)
    }
    fn apply_op(&mut self, op: Self::Op) {
        self.apply(op)
    }
    fn merge_from(&mut self, other: Self) {
        self.merge(other)
    }
    fn observe(&self) -> Obs {
        plain(Dump::rec(vec![("val", Dump::u(self.val as u64)), ("marker", Dump::Seq(vec![Dump::u(self.marker.0), Dump::u(self.marker.1 as u64)]))]))
    }
    fn spec(inp: &SpecIn) -> Obs {
        let mut best = (0u32, (0u64, 0u8));
        for (_, f) in inp.facts {
            if let Fact::Lww { val, marker } = f {
                if *marker > best.1 {
                    best = (*val, *marker);
                }
            }
        }
        plain(Dump::rec(vec![("val", Dump::u(best.0 as u64)), ("marker", Dump::Seq(vec![Dump::u(best.1 .0), Dump::u(best.1 .1 as u64)]))]))
    }
    fn validate_op_s(&self, op: &Self::Op) -> Result<(), String> {
        self.validate_op(op).map_err(|e| format!("{e:?}"))
    }
    fn validate_merge_s(&self, other: &Self) -> Result<(), String> {
        self.validate_merge(other).map_err(|e| format!("{e:?}"))
    }
}

// ---------------- MaxReg / MinReg ----------------
fn random_small(rng: &mut Rng) -> Cmd {
    Cmd::new("write", vec![rng.below(9) as u64])
}
fn small_val(cmd: &Cmd) -> i32 {
    match cmd.arg(0) {
        7 => i32::MAX,
        8 => i32::MIN,
        x => x as i32 - 3,
    }
}
pub type MAX = MaxReg<i32>;
impl Sut for MAX {
    type Op = i32;
    const NAME: &'static str = "MAX";
    const WEAKEST: Delivery = Delivery::Any;
    fn new() -> Self {
        MaxReg::default()
    }
    fn random_cmd(rng: &mut Rng, _sh: &Shadow) -> Cmd {
        random_small(rng)
    }
    fn gen(&self, _actor: A, cmd: &Cmd, _sh: &mut Shadow, _old: &Self) -> Option<Gen<Self::Op>> {
        let v = small_val(cmd);
        let mut g = Gen::new(self.write(v), format!("write({v})"));
        g.facts.push(Fact::Elem(v as i64));
        Some(g)
    }
    fn apply_op(&mut self, op: Self::Op) {
        self.apply(op)
    }
    fn merge_from(&mut self, other: Self) {
        self.merge(other)
    }
    fn observe(&self) -> Obs {
        let inc = if *self.read() != self.val { Some("read() != val".to_string()) } else { None };
        Obs { reads: Dump::I(*self.read() as i128), ctx: Dump::Unit, incoherent: inc }
    }
    fn spec(inp: &SpecIn) -> Obs {
        let m = inp.facts.iter().filter_map(|(_, f)| if let Fact::Elem(e) = f { Some(*e) } else { None }).fold(0i64, |a, b| a.max(b));
        plain(Dump::I(m as i128))
    }
    fn validate_op_s(&self, op: &Self::Op) -> Result<(), String> {
        self.validate_op(op).map_err(|e| format!("{e:?}"))
    }
    fn validate_merge_s(&self, other: &Self) -> Result<(), String> {
        self.validate_merge(other).map_err(|e| format!("{e:?}"))
    }
}
pub type MIN = MinReg<i32>;
impl Sut for MIN {
    type Op = i32;
    const NAME: &'static str = "MIN";
    const WEAKEST: Delivery = Delivery::Any;
    fn new() -> Self {
        MinReg::default()
    }
    fn random_cmd(rng: &mut Rng, _sh: &Shadow) -> Cmd {
        random_small(rng)
    }
    fn gen(&self, _actor: A, cmd: &Cmd, _sh: &mut Shadow, _old: &Self) -> Option<Gen<Self::Op>> {
        let v = small_val(cmd);
        let mut g = Gen::new(self.write(v), format!("write({v})"));
        g.facts.push(Fact::Elem(v as i64));
        Some(g)
    }
    fn apply_op(&mut self, op: Self::Op) {
        self.apply(op)
    }
    fn merge_from(&mut self, other: Self) {
        self.merge(other)
    }
    fn observe(&self) -> Obs {
        let inc = if *self.read() != self.val { Some("read() != val".to_string()) } else { None };
        Obs { reads: Dump::I(*self.read() as i128), ctx: Dump::Unit, incoherent: inc }
    }
    fn spec(inp: &SpecIn) -> Obs {
        let m = inp.facts.iter().filter_map(|(_, f)| if let Fact::Elem(e) = f { Some(*e) } else { None }).fold(0i64, |a, b| a.min(b));
        plain(Dump::I(m as i128))
    }
    fn validate_op_s(&self, op: &Self::Op) -> Result<(), String> {
        self.validate_op(op).map_err(|e| format!("{e:?}"))
    }
    fn validate_merge_s(&self, other: &Self) -> Result<(), String> {
        self.validate_merge(other).map_err(|e| format!("{e:?}"))
    }
}
