pub mod causal;
pub mod seq;
pub mod simple;
