//! Per-property orchestration: which instantiations, configurations, monitors and budgets make up
//! the check of each property, how the verdict is formed, and what goes into the evidence file.
use crate::algebra;
use crate::campaign::*;
use crate::known::{self, Known};
use crate::sut::*;
use crate::types::causal::*;
use crate::types::seq::*;
use crate::types::simple::*;
use crate::world::*;
use serde_json::json;
use std::collections::BTreeMap;
use std::time::Instant;

#[derive(Clone)]
pub struct Job {
    pub sut: &'static str,
    pub cfg: Cfg,
    pub sweep: Option<Sweep>,
    pub n: u64,
    pub label: &'static str,
}

pub struct RunCtx {
    pub prop: String,
    pub tier: String,
    pub seed: u64,
    pub threads: usize,
    pub scale: f64,
    pub thorough: bool,
}

macro_rules! dispatch {
    ($name:expr, $f:ident, $($a:expr),*) => {
        match $name {
            "VC" => $f::<VC>($($a),*),
            "GC" => $f::<GC>($($a),*),
            "PN" => $f::<PN>($($a),*),
            "GS" => $f::<GS>($($a),*),
            "LWW" => $f::<LWW>($($a),*),
            "MAX" => $f::<MAX>($($a),*),
            "MIN" => $f::<MIN>($($a),*),
            "MV" => $f::<MV>($($a),*),
            "OS" => $f::<OS>($($a),*),
            "MO" => $f::<MO>($($a),*),
            "MM" => $f::<MM>($($a),*),
            "MMO" => $f::<MMO>($($a),*),
            "MMM" => $f::<MMM>($($a),*),
            "MMMO" => $f::<MMMO>($($a),*),
            "GL" => $f::<GL>($($a),*),
            "LI" => $f::<LI>($($a),*),
            "MK" => $f::<MK>($($a),*),
            x => panic!("unknown instantiation {x}"),
        }
    };
}
pub(crate) use dispatch;

pub const ORDER_FREE: [&str; 7] = ["VC", "GC", "PN", "GS", "LWW", "MAX", "MIN"];
pub const MAPS: [&str; 4] = ["MO", "MM", "MMO", "MMM"];

fn weakest(s: &str) -> Delivery {
    match s {
        "LI" => Delivery::Causal,
        "OS" | "MO" | "MM" | "MMO" | "MMM" | "MMMO" => Delivery::Fifo,
        _ => Delivery::Any,
    }
}
fn has_merge(s: &str) -> bool {
    s != "LI"
}
fn all_types(thorough: bool) -> Vec<&'static str> {
    let mut v = vec!["VC", "GC", "PN", "GS", "LWW", "MAX", "MIN", "MV", "OS", "MO", "MM", "MMO", "MMM", "GL", "LI", "MK"];
    if thorough {
        v.push("MMMO");
    }
    v
}
fn steps_for(s: &str) -> usize {
    match s {
        "MK" => 14,
        "LI" | "GL" => 22,
        _ => 18,
    }
}

/// conflict-template job (campaign policy 254): 4 actors on one hot path, then *all* delivery orders of the
/// resulting 3-7 ops under `disc` (after all causal orders, which fill the reference table)
fn template_job(sut: &'static str, monitors: u32, disc: Delivery, anyk: bool, n: u64) -> Job {
    let mut c = Cfg::base(4, 0, Delivery::Causal, monitors);
    c.nobs = 1;
    c.anyk = anyk;
    c.policy = 254;
    let swp = Sweep { next: 40, disc, causal_ref: 10, exhaustive_upto: 6, merges: false };
    job(sut, "conflict template (writers / nested remover / outer remover on one path), every delivery order", c, Some(swp), n)
}

fn job(sut: &'static str, label: &'static str, cfg: Cfg, sweep: Option<Sweep>, n: u64) -> Job {
    Job { sut, cfg, sweep, n, label }
}

/// the jobs making up the check of one property (quick budgets; the thorough tier scales them)
pub fn jobs_for(prop: &str, thorough: bool) -> Vec<Job> {
    let mut js = vec![];
    let sw = |next: usize, disc: Delivery, causal_ref: usize| Some(Sweep { next, disc, causal_ref, exhaustive_upto: if thorough { 6 } else { 0 }, merges: false });
    match prop {
        "C01" => {
            for s in all_types(thorough) {
                let mut c = Cfg::base(3, 12, Delivery::Causal, mon::CONV);
                c.nobs = 1;
                c.dups = true;
                c.policy = 255;
                js.push(job(s, "causal authoring + causal cut sweep", c, sw(20, Delivery::Causal, 0), 1500));
                let mut c4 = c;
                c4.nrep = 4;
                c4.nsteps = 20;
                js.push(job(s, "4 replicas", c4, sw(12, Delivery::Causal, 0), 500));
            }
            for s in ["OS", "MO", "MM", "MMO", "MMM"] {
                js.push(template_job(s, mon::CONV, Delivery::Causal, false, 400));
            }
        }
        "C02" => {
            for s in all_types(thorough) {
                if !has_merge(s) {
                    continue;
                }
                let mut c = Cfg::base(3, steps_for(s), weakest(s), mon::LAWS);
                c.merges = true;
                c.dups = true;
                c.laws = 12;
                c.policy = 255;
                js.push(job(s, "merge laws on pool (weakest discipline: pending removes in operands)", c, None, 1500));
                let mut c2 = c;
                c2.delivery = Delivery::Causal;
                js.push(job(s, "merge laws on pool (causal)", c2, None, 1000));
                if ["OS", "MO", "MM", "MMO", "MMM"].contains(&s) {
                    let mut t = template_job(s, mon::LAWS, Delivery::Causal, false, 1500);
                    t.cfg.merges = true;
                    t.cfg.laws = 16;
                    t.cfg.nobs = 0;
                    t.sweep = None;
                    js.push(t);
                }
                if ["OS", "MO", "MM", "MMO", "MMM"].contains(&s) {
                    let mut c3 = Cfg::base(3, 14, Delivery::Causal, mon::LAWS);
                    c3.nobs = 3;
                    c3.anyk = true;
                    c3.laws = 16;
                    c3.policy = 255;
                    let swp = Sweep { next: 8, disc: Delivery::Fifo, causal_ref: 1, exhaustive_upto: 0, merges: true };
                    js.push(job(s, "random history; observers fed along adversarial FIFO extensions merge with each other, their states as operands of the merge laws", c3, Some(swp), 1000));
                }
                if ["OS", "MO", "MMO"].contains(&s) {
                    let mut t = template_job(s, mon::LAWS, Delivery::Fifo, true, 1000);
                    t.cfg.nobs = 3;
                    t.cfg.laws = 24;
                    t.sweep = Some(Sweep { next: 3, disc: Delivery::Fifo, causal_ref: 0, exhaustive_upto: 0, merges: true });
                    t.label = "conflict template; partially fed observers' states as operands of the merge laws";
                    js.push(t);
                }
            }
        }
        "C03" => {
            for s in ["GC", "PN", "GS", "LWW", "MAX", "MIN", "MV", "OS", "MO", "MM", "MMO", "MMM", "GL", "MK"] {
                let mut c = Cfg::base(3, steps_for(s), Delivery::Causal, mon::HYBRID | mon::SPEC);
                c.merges = true;
                c.dups = true;
                c.laws = 12;
                c.policy = 255;
                js.push(job(s, "ops mixed with merges vs model; merge(a,b) vs op path", c, None, 1500));
                if ["OS", "MO", "MM", "MMO", "MMM"].contains(&s) {
                    let mut t = template_job(s, mon::HYBRID | mon::SPEC, Delivery::Causal, false, 1500);
                    t.cfg.merges = true;
                    t.cfg.laws = 16;
                    t.cfg.nobs = 0;
                    t.sweep = None;
                    js.push(t);
                }
                if ["OS", "MO", "MMO"].contains(&s) {
                    // partially fed observers (states holding pending removes from *different* removers) as law operands
                    let mut t = template_job(s, mon::HYBRID, Delivery::Fifo, true, 1000);
                    t.cfg.nobs = 3;
                    t.cfg.laws = 24;
                    t.sweep = Some(Sweep { next: 3, disc: Delivery::Fifo, causal_ref: 0, exhaustive_upto: 0, merges: true });
                    t.label = "conflict template; partially fed observers' states as operands of merge vs op-path";
                    js.push(t);
                }
                if weakest(s) != Delivery::Causal {
                    let mut c2 = c;
                    c2.delivery = weakest(s);
                    c2.anyk = !MAPS.contains(&s);
                    js.push(job(s, "same under the weakest discipline", c2, None, 1000));
                    // random causally authored history (several keys/members, removes sharing one context);
                    // observers fed along per-actor-ordered extensions hold different pending removes and merge
                    let mut c3 = Cfg::base(3, 14, Delivery::Causal, mon::HYBRID | mon::SPEC);
                    c3.nobs = 3;
                    c3.anyk = !MAPS.contains(&s);
                    c3.laws = 16;
                    c3.policy = 255;
                    let swp = Sweep { next: 8, disc: Delivery::Fifo, causal_ref: 1, exhaustive_upto: 0, merges: true };
                    js.push(job(s, "random history; observers fed along adversarial FIFO extensions merge with each other, their states as operands of merge vs op-path", c3, Some(swp), 1000));
                }
            }
        }
        "C04" => {
            for (label, d, merges, anyk) in [("causal ops+dups", Delivery::Causal, false, false), ("fifo ops+dups, every K", Delivery::Fifo, false, true), ("causal + merges", Delivery::Causal, true, false), ("fifo + merges + stale merges, every K", Delivery::Fifo, true, true)] {
                let mut c = Cfg::base(3, 20, d, mon::SPEC | mon::CTX);
                c.dups = true;
                c.merges = merges;
                c.stale_merges = merges;
                c.anyk = anyk;
                c.policy = 255;
                js.push(job("OS", label, c, None, 5000));
            }
            let mut c = Cfg::base(4, 30, Delivery::Fifo, mon::SPEC | mon::CTX);
            c.dups = true;
            c.merges = true;
            c.anyk = true;
            c.policy = 255;
            js.push(job("OS", "4 replicas, 30 steps", c, None, 2000));
            // observers fed along adversarial per-actor-ordered extensions (removes before the adds they cover),
            // model checked at *every* knowledge set of every observer
            let mut c = Cfg::base(3, 14, Delivery::Causal, mon::SPEC | mon::CTX);
            c.nobs = 2;
            c.anyk = true;
            c.dups = true;
            c.policy = 255;
            let mut swp = sw(12, Delivery::Fifo, 2).unwrap();
            swp.merges = true;
            js.push(job("OS", "observer sweep along adversarial FIFO extensions, model at every K", c, Some(swp), 2500));
            js.push(template_job("OS", mon::SPEC | mon::CTX, Delivery::Fifo, true, 600));
            // several removers with identical contexts, pending removes held by different observers that merge
            let mut t = template_job("OS", mon::SPEC | mon::CTX, Delivery::Fifo, true, 1500);
            t.cfg.nobs = 3;
            t.sweep = Some(Sweep { next: 30, disc: Delivery::Fifo, causal_ref: 2, exhaustive_upto: 0, merges: true });
            t.label = "conflict template, three observers exchanging state in mid-delivery";
            js.push(t);
        }
        "C05" => {
            let mut ms = MAPS.to_vec();
            if thorough {
                ms.push("MMMO");
            }
            for s in ms {
                for (label, d, merges) in [("ops only, causal", Delivery::Causal, false), ("with merges, causal", Delivery::Causal, true), ("ops only, fifo", Delivery::Fifo, false), ("with merges, fifo", Delivery::Fifo, true)] {
                    let mut c = Cfg::base(3, 18, d, mon::SPEC);
                    c.dups = true;
                    c.merges = merges;
                    c.stale_merges = merges;
                    c.anyk = true;
                    c.policy = 255;
                    js.push(job(s, label, c, None, 2500));
                }
                let mut c = Cfg::base(4, 26, Delivery::Causal, mon::SPEC);
                c.dups = true;
                c.policy = 255;
                js.push(job(s, "4 actors, ops only, causal", c, None, 1000));
                let mut c = Cfg::base(3, 14, Delivery::Causal, mon::SPEC);
                c.nobs = 2;
                c.anyk = true;
                c.policy = 255;
                let mut swp = sw(10, Delivery::Fifo, 2).unwrap();
                swp.merges = true;
                js.push(job(s, "observer sweep along adversarial FIFO extensions, model at every K", c, Some(swp), 1200));
                js.push(template_job(s, mon::SPEC, Delivery::Fifo, true, if s.len() == 3 { 3000 } else { 1000 }));
                let mut tf = template_job(s, mon::SPEC, Delivery::Fifo, true, 1000);
                tf.cfg.delivery = Delivery::Fifo;
                tf.label = "conflict template authored under per-actor order, every delivery order";
                js.push(tf);
            }
        }
        "C06" => {
            for (label, merges, eqv, d) in [("any order + dups", false, false, Delivery::Any), ("any order + merges", true, false, Delivery::Any), ("equal values written concurrently (causal)", true, true, Delivery::Causal)] {
                let mut c = Cfg::base(3, 20, d, mon::SPEC | mon::CTX);
                c.dups = true;
                c.merges = merges;
                c.stale_merges = merges;
                c.equal_vals = eqv;
                c.anyk = true;
                c.policy = 255;
                js.push(job("MV", label, c, None, 40000));
            }
            let mut c = Cfg::base(4, 30, Delivery::Any, mon::SPEC | mon::CTX);
            c.dups = true;
            c.merges = true;
            c.anyk = true;
            c.policy = 255;
            js.push(job("MV", "4 replicas", c, None, 15000));
            let mut c5 = c;
            c5.nrep = 5;
            c5.nsteps = 36;
            js.push(job("MV", "5 replicas, 36 steps", c5, None, 6000));
        }
        "C07" => {
            for s in ["OS", "MV", "MO", "MM", "MMO", "MMM"] {
                for (label, d, merges) in [("causal", Delivery::Causal, false), ("weakest discipline", weakest(s), false), ("merges", Delivery::Causal, true)] {
                    let mut c = Cfg::base(3, 18, d, mon::CTX);
                    c.dups = true;
                    c.merges = merges;
                    c.anyk = !MAPS.contains(&s);
                    c.policy = 255;
                    js.push(job(s, label, c, None, 2000));
                }
                {
                    // four and five actors on the same elements: witness sets and contexts naming many actors
                    let mut c = Cfg::base(4, 30, weakest(s), mon::CTX);
                    c.dups = true;
                    c.merges = true;
                    c.anyk = !MAPS.contains(&s);
                    c.policy = 255;
                    js.push(job(s, "4 replicas, 30 steps, weakest discipline + merges", c, None, 700));
                    let mut c5 = c;
                    c5.nrep = 5;
                    c5.nsteps = 36;
                    c5.delivery = Delivery::Causal;
                    js.push(job(s, "5 replicas, 36 steps, causal + merges", c5, None, 300));
                }
                if s != "MV" {
                    // observers fed along adversarial per-actor-ordered extensions: many pending removes at once
                    let mut c = Cfg::base(3, 16, Delivery::Causal, mon::CTX);
                    c.nobs = 2;
                    c.anyk = !MAPS.contains(&s);
                    c.policy = 255;
                    let mut swp = sw(10, Delivery::Fifo, 2).unwrap();
                    swp.merges = true;
                    js.push(job(s, "observer sweep along adversarial FIFO extensions", c, Some(swp), 800));
                    js.push(template_job(s, mon::CTX, Delivery::Fifo, !MAPS.contains(&s), 300));
                    let mut t = template_job(s, mon::CTX, Delivery::Causal, !MAPS.contains(&s), 4000);
                    t.cfg.merges = true;
                    t.label = "conflict template with state merges between the authors, every delivery order";
                    js.push(t);
                }
            }
        }
        "C08" => {
            for s in all_types(thorough) {
                if s == "LI" {
                    continue;
                }
                // (i) causally authored op set, observers fed along non-causal extensions
                let mut c = Cfg::base(3, 12, Delivery::Causal, mon::CONV | mon::SPEC);
                c.nobs = 2;
                c.policy = 255;
                let mut swp = sw(16, weakest(s), 6).unwrap();
                swp.merges = true;
                js.push(job(s, "observer sweep: non-causal extensions vs causal reference", c, Some(swp), 1200));
                // (ii) authoring under the weak discipline itself; causal observers give the reference
                let mut c2 = Cfg::base(3, 16, weakest(s), mon::CONV | mon::SPEC);
                c2.nobs = 1;
                c2.merges = true;
                c2.dups = true;
                c2.policy = 255;
                js.push(job(s, "authoring under the weak discipline + merges; causal observers as reference", c2, sw(6, Delivery::Causal, 0), 1500));
                if ["MMO", "MMM", "MO", "MM", "OS"].contains(&s) {
                    js.push(template_job(s, mon::CONV | mon::SPEC, Delivery::Fifo, false, if s.len() == 3 { 4000 } else { 1500 }));
                    // authors that themselves hold only per-actor-ordered knowledge (ops generated from non-closed states)
                    let mut tf = template_job(s, mon::CONV | mon::SPEC, Delivery::Fifo, false, 1200);
                    tf.cfg.delivery = Delivery::Fifo;
                    tf.label = "conflict template authored under per-actor order, every delivery order";
                    js.push(tf);
                    // four actors: holder, second writer, inner remover and outer remover can all be distinct
                    let mut c4 = c;
                    c4.nrep = 4;
                    c4.nsteps = 16;
                    js.push(job(s, "4 actors: observer sweep, non-causal extensions vs causal reference", c4, Some(swp), 800));
                }
            }
        }
        "C09" => {
            for s in all_types(thorough) {
                for (label, d) in [("causal", Delivery::Causal), ("weakest discipline", weakest(s))] {
                    if label == "weakest discipline" && d == Delivery::Causal {
                        continue;
                    }
                    let mut c = Cfg::base(3, steps_for(s), d, mon::DUP | mon::STALE | mon::STRUCT);
                    c.dups = true;
                    c.merges = has_merge(s);
                    c.stale_merges = has_merge(s);
                    c.policy = 255;
                    js.push(job(s, label, c, None, 1200));
                }
                if ["OS", "MO", "MM", "MMO", "MMM"].contains(&s) {
                    let mut t = template_job(s, mon::DUP | mon::STALE | mon::STRUCT, Delivery::Fifo, false, 600);
                    t.cfg.merges = true;
                    t.cfg.stale_merges = true;
                    js.push(t);
                }
            }
        }
        "C11" => {
            for s in ["GC", "PN", "GS", "LWW", "MAX", "MIN"] {
                let mut c = Cfg::base(3, 22, Delivery::Any, mon::SPEC | mon::MONO);
                c.dups = true;
                c.merges = true;
                c.stale_merges = true;
                c.anyk = true;
                c.policy = 255;
                js.push(job(s, "any order, dups, merges", c, None, 20000));
                let mut c4 = c;
                c4.nrep = 5;
                c4.nsteps = 40;
                js.push(job(s, "5 actors", c4, None, 6000));
            }
            for s in ["GC", "PN"] {
                let mut c = Cfg::base(5, 30, Delivery::Any, mon::SPEC | mon::MONO);
                c.dups = true;
                c.merges = true;
                c.anyk = true;
                c.equal_vals = true;
                c.policy = 255;
                js.push(job(s, "huge increments: every actor's total near 2^63..2^64, sums far beyond u64", c, None, 8000));
            }
            let mut c = Cfg::base(3, 16, Delivery::Any, mon::VOP | mon::VMERGE);
            c.misuse = true;
            c.dups = true;
            js.push(job("LWW", "misuse: markers reused with different values", c, None, 10000));
        }
        "C12" => {
            let mut c = Cfg::base(3, 26, Delivery::Causal, mon::SPEC | mon::CONV | mon::ORDER | mon::EQ);
            c.dups = true;
            c.nobs = 1;
            c.policy = 255;
            js.push(job("LI", "3 replicas + cut sweep", c, sw(10, Delivery::Causal, 0), 16000));
            let mut c4 = c;
            c4.nrep = 4;
            c4.nsteps = 40;
            js.push(job("LI", "4 replicas, 40 steps", c4, sw(6, Delivery::Causal, 0), 5000));
            let mut t = template_job("LI", mon::SPEC | mon::CONV | mon::ORDER | mon::EQ, Delivery::Causal, false, 6000);
            t.cfg.dups = true;
            t.label = "conflict template: 4 actors editing around two positions (sibling and nested identifiers), every causal order";
            js.push(t);
        }
        "C13" => {
            let mut c = Cfg::base(3, 30, Delivery::Causal, mon::SEQ);
            c.dups = true;
            c.policy = 255;
            js.push(job("LI", "local edits on states containing remote concurrent siblings", c, None, 5000));
            let mut t = template_job("LI", mon::SEQ, Delivery::Causal, false, 30000);
            t.cfg.nsteps = 16;
            t.cfg.nobs = 0;
            t.sweep = None;
            t.label = "conflict template around two positions by 4 actors, then 16 local edits in episodes (bursts; type forward, delete back, retype) at the same spot: deep identifiers";
            js.push(t);
            let mut g = Cfg::base(3, 30, Delivery::Any, mon::SEQ);
            g.dups = true;
            g.merges = true;
            g.policy = 255;
            js.push(job("GL", "GList insert/insert_after/insert_before with remote ops in between", g, None, 5000));
            let mut g2 = g;
            g2.equal_vals = true;
            g2.merges = false;
            js.push(job("GL", "same, inserting values that are already present (equal markers next to each other)", g2, None, 4000));
        }
        "C15" => {
            let mut c = Cfg::base(3, 14, Delivery::Any, mon::SPEC | mon::CONV | mon::EQ);
            c.dups = true;
            c.merges = true;
            c.stale_merges = true;
            c.anyk = true;
            c.nobs = 2;
            c.policy = 255;
            let mut swp = sw(12, Delivery::Any, 2).unwrap();
            swp.merges = true;
            js.push(job("MK", "any order, dups, merges, orphan chains + any-order cut sweep", c, Some(swp), 4000));
        }
        "C16" => {
            for s in all_types(thorough) {
                for (label, d) in [("causal", Delivery::Causal), ("weakest discipline", weakest(s))] {
                    if label == "weakest discipline" && d == Delivery::Causal {
                        continue;
                    }
                    let mut c = Cfg::base(3, steps_for(s), d, mon::VOP);
                    c.dups = true;
                    c.merges = has_merge(s) && label == "causal";
                    c.policy = 255;
                    js.push(job(s, label, c, None, 1200));
                }
            }
            for s in ["OS", "MO", "MM", "MMO", "MMM", "MK", "VC"] {
                // observers along adversarial extensions of the weakest discipline: validate_op probed at states
                // holding many pending removes / orphans
                let mut c = Cfg::base(3, 16, Delivery::Causal, mon::VOP);
                c.nobs = 2;
                c.policy = 255;
                let mut swp = sw(10, weakest(s), 2).unwrap();
                swp.merges = s != "MK";
                js.push(job(s, "observer sweep along adversarial extensions of the weakest discipline", c, Some(swp), 800));
            }
            let mut c = Cfg::base(3, 16, Delivery::Any, mon::VOP);
            c.misuse = true;
            c.dups = true;
            js.push(job("LWW", "misuse: markers reused with different values", c, None, 2000));
        }
        "C17" => {
            for s in all_types(thorough) {
                if !has_merge(s) {
                    continue;
                }
                let mut c = Cfg::base(3, steps_for(s), weakest(s), mon::VMERGE);
                c.dups = true;
                c.merges = true;
                c.policy = 255;
                js.push(job(s, "correct use: distinct actors", c, None, 5000));
            }
            for s in ["OS", "MO", "MM", "MMO", "LWW"] {
                let mut c = Cfg::base(3, 10, Delivery::Any, mon::VMERGE);
                c.misuse = true;
                js.push(job(s, "misuse: one actor shared by all replicas", c, None, 10000));
            }
        }
        "C19" => {
            for s in all_types(thorough) {
                let mut c = Cfg::base(3, steps_for(s), weakest(s), mon::SERDE);
                c.dups = true;
                c.merges = has_merge(s);
                c.shadows = true;
                c.policy = 255;
                js.push(job(s, "round trips at every step + restored shadow replicas", c, None, 800));
                if weakest(s) != Delivery::Causal {
                    let mut c2 = c;
                    c2.delivery = Delivery::Causal;
                    js.push(job(s, "causal (no pending removes: full round trips)", c2, None, 800));
                }
                if ["OS", "MO", "MM", "MMO", "MMM"].contains(&s) {
                    // four actors on one key path (states that three single-actor replicas cannot reach)
                    let mut t = template_job(s, mon::SERDE, Delivery::Causal, false, 400);
                    t.sweep = Some(Sweep { next: 12, disc: Delivery::Causal, causal_ref: 0, exhaustive_upto: 0, merges: false });
                    js.push(t);
                    // the same with authors that have received each other's ops in per-actor order only
                    let mut t2 = template_job(s, mon::SERDE, Delivery::Fifo, false, 600);
                    t2.cfg.delivery = Delivery::Fifo;
                    t2.sweep = Some(Sweep { next: 12, disc: Delivery::Fifo, causal_ref: 0, exhaustive_upto: 0, merges: false });
                    t2.label = "conflict template, authors and observers under per-actor order";
                    js.push(t2);
                    let mut c4 = c;
                    c4.nrep = 4;
                    c4.nsteps = 24;
                    c4.delivery = Delivery::Causal;
                    js.push(job(s, "4 replicas, causal", c4, None, 500));
                }
            }
        }
        "C20" => {
            for s in all_types(thorough) {
                let mut c = Cfg::base(3, 12, Delivery::Causal, mon::EQ | mon::RESIDUE);
                c.nobs = 1;
                c.dups = true;
                c.policy = 255;
                js.push(job(s, "causal cut sweep: equal K => ==, closed K => no residue", c, sw(16, Delivery::Causal, 0), 1500));
                if ["OS", "MO", "MM", "MMO", "MMM"].contains(&s) {
                    js.push(template_job(s, mon::EQ | mon::RESIDUE, Delivery::Causal, false, 300));
                    let mut t = template_job(s, mon::EQ | mon::RESIDUE, Delivery::Causal, false, 600);
                    t.cfg.merges = true;
                    t.label = "conflict template with state merges between the authors, every delivery order";
                    js.push(t);
                }
                if has_merge(s) {
                    let mut c2 = Cfg::base(3, 16, weakest(s), mon::EQ | mon::RESIDUE);
                    c2.nobs = 1;
                    c2.dups = true;
                    c2.merges = true;
                    c2.policy = 255;
                    js.push(job(s, "weakest discipline + merges, causal observers", c2, sw(6, Delivery::Causal, 0), 3000));
                }
            }
        }
        _ => {}
    }
    js
}

/// which monitor kinds count as evaluations of a property
fn eval_keys(prop: &str) -> Vec<&'static str> {
    match prop {
        "C01" => vec!["table"],
        "C02" => vec!["law_comm", "law_assoc", "law_idem", "law_followup"],
        "C03" => vec!["law_hybrid", "law_hybrid_oppath", "law_followup", "spec"],
        "C04" | "C05" | "C06" => vec!["spec"],
        "C07" => vec!["ctx_read", "ctx_derive", "ctx_derive_any", "ctx_next_dot", "ctx_rm_known"],
        "C08" => vec!["spec", "table"],
        "C09" => vec!["dup", "stale"],
        "C11" => vec!["spec", "mono", "vop", "vmerge"],
        "C12" => vec!["spec", "order", "table", "eq"],
        "C13" => vec!["seq_model"],
        "C15" => vec!["spec", "table", "eq"],
        "C16" => vec!["vop", "vop_origin"],
        "C17" => vec!["vmerge"],
        "C19" => vec!["serde_state", "serde_op", "shadow_step"],
        "C20" => vec!["eq", "eq_sound", "residue", "canonical"],
        _ => vec![],
    }
}

fn run_job<S: Sut>(seed: u64, j: &Job, threads: usize, scale: f64, shrink_cap: usize) -> CampStats {
    let n = ((j.n as f64) * scale).ceil() as u64;
    campaign::<S>(seed, n.max(16), j.cfg, j.sweep, threads, shrink_cap)
}

pub struct Verdict {
    pub violations: Vec<Finding>,
    pub known_lines: Vec<String>,
    pub inconclusive: Option<String>,
    pub evidence: serde_json::Value,
    pub known_samples: Vec<Finding>,
}

pub fn run_property(cx: &RunCtx, known: &Known) -> Verdict {
    let t0 = Instant::now();
    if matches!(cx.prop.as_str(), "C10" | "C14" | "C18") {
        return algebra::run(cx, known);
    }
    let mut jobs = jobs_for(&cx.prop, cx.thorough);
    if cx.thorough || !matches!(cx.prop.as_str(), "C01" | "C08" | "C12") {
        // (quick tier: not for the three sweep-heavy properties, whose code paths C04/C05/C13/C20 share)
        // many actors: the first job of every instantiation once more with 8 replicas and 40 steps (clocks, witness
        // sets and remove contexts naming 6-8 actors; registers with 5+ concurrent values), a tenth of the budget
        let mut seen = std::collections::HashSet::new();
        let many: Vec<Job> = jobs
            .iter()
            .filter(|j| !j.cfg.misuse && j.cfg.policy != 254 && seen.insert(j.sut))
            .map(|j| {
                let mut b = j.clone();
                // (counters and grow-only types are cheap: 11 actors there)
                b.cfg.nrep = if cx.prop == "C11" { 11 } else { 8 };
                // (40 steps spread 11 actors' increments too thinly for one replica to learn of 9 of them)
                b.cfg.nsteps = if cx.prop == "C11" { 110 } else { 40 };
                b.n = (j.n / 16).max(100);
                if let Some(sw) = &mut b.sweep {
                    sw.next = sw.next.min(4);
                    sw.causal_ref = sw.causal_ref.min(2);
                }
                b.label = "many actors: 8 replicas, 40 steps";
                b
            })
            .collect();
        jobs.extend(many);
    }
    if cx.thorough {
        // larger scenarios: one more replica, histories twice as long (a third of the budget each)
        let big: Vec<Job> = jobs
            .iter()
            .filter(|j| !j.cfg.misuse)
            .map(|j| {
                let mut b = j.clone();
                b.cfg.nrep = (j.cfg.nrep + 1).min(5);
                b.cfg.nsteps = (j.cfg.nsteps * 2).min(56);
                b.n = (j.n / 3).max(50);
                b.label = "larger scenario: +1 replica, 2x steps";
                b
            })
            .collect();
        jobs.extend(big);
    }
    let mut total = CampStats::default();
    let mut per_job = vec![];
    let active = known.active_for(&cx.prop);
    crate::taint::set_active(active.iter().map(|s| s.to_string()).collect());
    for (ji, j) in jobs.iter().enumerate() {
        let jseed = crate::rng::mix(cx.seed, ji as u64 + 1);
        let tj = Instant::now();
        let st: CampStats = dispatch!(j.sut, run_job, jseed, j, cx.threads, cx.scale, if cx.thorough { 12 } else { 6 });
        per_job.push(json!({"sut": j.sut, "label": j.label, "histories": st.histories, "ops": st.ops, "actions": st.actions,
            "delivery": format!("{:?}", j.cfg.delivery), "nrep": j.cfg.nrep, "steps": j.cfg.nsteps,
            "violations": st.violations.len(), "attributed": st.attributed, "attributed_unshrunk": st.attributed_unshrunk,
            "tainted_histories": st.tainted, "untainted_histories": st.untainted, "wall_s": tj.elapsed().as_secs_f64()}));
        total.merge(st);
    }
    let mut extra_evals = 0u64;
    let mut extra_types = json!(null);
    if cx.prop == "C19" {
        // E2 part: the generic serde paths with other element/member types
        let (e, d, v, smp) = algebra::serde_types(cx.seed, (40.0 * cx.scale) as u64 + 1);
        extra_evals = e;
        extra_types = json!({"evaluations": e, "distinct_states": d, "types": smp});
        total.violations.extend(v);
    }
    if cx.prop == "C13" {
        // E2 part: sequences of hundreds of elements (beyond the 128 ops of a replicated-system history)
        let (e, _d, v, smp) = algebra::long_lists(cx.seed, (24.0 * cx.scale) as u64 + 1);
        extra_evals = e;
        extra_types = json!({"evaluations": e, "long_sequences": smp});
        total.violations.extend(v);
    }
    let evals: u64 = eval_keys(&cx.prop).iter().map(|k| total.h.evals.get(k).cloned().unwrap_or(0)).sum::<u64>() + extra_evals;
    // property-specific measured count of distinct non-trivial cases
    let (distinct, rule): (u64, String) = match cx.prop.as_str() {
        "C01" | "C20" | "C12" | "C15" => (total.h.cuts_multi, "distinct (history, knowledge set) pairs reached by >= 2 different delivery/merge orders, whose observations were compared".into()),
        "C02" | "C03" => (total.h.incomparable_triples, "law evaluations whose operands have pairwise-incomparable knowledge sets (operands drawn from the pool of recorded states, incl. merge results and states with pending removes); each is a distinct (history, pool indices) case".into()),
        "C08" => (total.h.noncausal_closed, "states at a causally closed knowledge set reached through >= 1 non-causal delivery and compared with the model and with the causal reference table".into()),
        "C09" => (total.schedules.len() as u64, "distinct schedules (hash of the action sequence) on which duplicate/stale probes ran after every action".into()),
        _ => (total.schedules.len() as u64, "distinct schedules (hash of the full action sequence: who generated, what was delivered where, merges); a history is non-trivial when it has >= 4 actions".into()),
    };
    let mut evidence = json!({
        "evaluations": evals,
        "distinct_nontrivial": distinct,
        "rule": rule,
        "samples": total.samples,
        "monitor_evaluations": total.h.evals,
        "histories": total.histories,
        "ops_generated": total.ops,
        "actions": total.actions,
        "events": {"gen": total.h.gens, "deliver": total.h.delivers, "redeliver": total.h.redelivers, "merge": total.h.merges, "stale_merge": total.h.stale_merges, "shadow_restore": total.h.shadows},
        "distinct_schedules": total.schedules.len(),
        "cuts": total.h.cuts, "cuts_reached_by_2_orders": total.h.cuts_multi,
        "pending_removes_created": total.h.pending_created, "pending_removes_discharged": total.h.pending_discharged,
        "closed_cuts_via_noncausal_path": total.h.noncausal_closed,
        "tainted_histories": total.tainted, "untainted_histories": total.untainted, "taint_counts": total.taint_counts,
        "known_finding_attributions": total.attributed, "attributed_unshrunk": total.attributed_unshrunk,
        "per_event_known": {"R4_nested_validate": total.h.r4, "R5_serde_deferred": total.h.r5, "R6_add_all_double_spent": total.h.r6},
        "misuse_pairs": {"must_flag": total.h.misuse_flagged, "must_accept": total.h.misuse_clean},
        "shrink_executions": total.shrink_execs,
        "jobs": per_job,
        "exhaustive": false,
    });
    // vacuity guards (three-valued verdicts): too little observed => inconclusive, never "held"
    let mut inconclusive = None;
    let need = |what: &str, got: u64, min: u64, inc: &mut Option<String>| {
        if got < min {
            *inc = Some(format!("vacuous run: {what} = {got} < {min}"));
        }
    };
    need("monitor evaluations", evals, 1000, &mut inconclusive);
    match cx.prop.as_str() {
        "C01" | "C20" => need("cuts reached by >= 2 orders", total.h.cuts_multi, 200, &mut inconclusive),
        "C08" => {
            need("pending removes discharged", total.h.pending_discharged, 50, &mut inconclusive);
            need("closed cuts via non-causal path", total.h.noncausal_closed, 200, &mut inconclusive);
        }
        "C02" | "C03" => need("incomparable operand sets", total.h.incomparable_triples, 200, &mut inconclusive),
        "C17" => need("misuse pairs that must be flagged", total.h.misuse_flagged, 50, &mut inconclusive),
        "C19" => need("shadow replicas restored", total.h.shadows, 50, &mut inconclusive),
        _ => {}
    }
    // known findings: replay pinned witnesses, print KNOWN-FINDING lines for those that still fail
    let mut known_lines = known::replay_pinned(&cx.prop, known);
    for (k, v) in &total.attributed {
        known_lines.push(format!("# attributed {v} occurrence(s) of {k} to a known finding (shrunk and re-judged)"));
    }
    evidence["wall_job_s"] = json!(t0.elapsed().as_secs_f64());
    if !extra_types.is_null() {
        evidence[if cx.prop == "C13" { "long_sequences_e2" } else { "serde_other_value_types" }] = extra_types;
    }
    evidence["known_samples"] = json!(total.known_samples.values().take(4).map(|f| json!({"finding": f.finding, "kind": f.kind, "sut": f.sut, "log": f.log})).collect::<Vec<_>>());
    let ks: Vec<Finding> = total.known_samples.values().cloned().collect();
    Verdict { violations: total.violations, known_lines, inconclusive, evidence, known_samples: ks }
}


/// dev helper (never part of a registered check): derive pinned witnesses for the known findings of
/// one property from an exploration run in which every listed finding is assumed alive.
pub fn mkwitness(prop: &str, seed: u64, verif: &str) {
    let jobs = jobs_for(prop, false);
    let mut best: BTreeMap<String, (usize, crate::known::Witness)> = BTreeMap::new();
    for (ji, j) in jobs.iter().enumerate() {
        let jseed = crate::rng::mix(seed, ji as u64 + 1);
        for only in ["R1", "R2", "R3", "R7"] {
            if !MAPS.contains(&j.sut) {
                continue;
            }
            // with a single finding alive, everything it cannot explain stays a violation and only
            // histories whose *minimised* form carries its trigger are kept as samples
            crate::taint::set_active([only.to_string()].into_iter().collect());
            let st: CampStats = dispatch!(j.sut, run_job, jseed, j, 16, 0.3, 30);
            for (_, f) in st.known_samples {
                let fid = f.finding.clone().unwrap();
                // a witness must be rooted in this finding alone: no higher-priority trigger on the minimised history
                let has = |t: &str| f.taints.iter().any(|x| x == t);
                let pure = match only {
                    "R1" => true,
                    "R2" => !has("T1"),
                    "R7" => !has("T1") && !has("T2"),
                    _ => !has("T1") && !has("T2") && !has("T7"),
                };
                if !pure {
                    continue;
                }
                let w = crate::known::Witness { property: prop.to_string(), sut: f.sut.clone(), cfg: serde_json::from_value(f.cfg.clone()).unwrap(), script: f.script.clone(), kind: f.kind.clone(), counter: String::new(), what: f.detail.lines().next().unwrap_or("").chars().take(160).collect() };
                let key = format!("{fid}.{prop}");
                if best.get(&key).map(|(n, _)| f.script.len() < *n).unwrap_or(true) {
                    best.insert(key, (f.script.len(), w));
                }
            }
        }
        crate::taint::set_active(["R4", "R5", "R6"].iter().map(|s| s.to_string()).collect());
        for (cname, fid) in [("r4", "R4"), ("r5", "R5"), ("r6", "R6")] {
            let w: Option<crate::known::Witness> = dispatch!(j.sut, counter_witness, jseed, j, cname, prop);
            if let Some(w) = w {
                let key = format!("{fid}.{prop}");
                if best.get(&key).map(|(n, _)| w.script.len() < *n).unwrap_or(true) {
                    best.insert(key, (w.script.len(), w));
                }
            }
        }
    }
    for (key, (n, w)) in best {
        let path = format!("known_findings/{key}.json");
        std::fs::write(format!("{verif}/{path}"), serde_json::to_string_pretty(&w).unwrap()).unwrap();
        println!("{path}: {} actions on {} ({}{})", n, w.sut, w.kind, w.counter);
    }
}

fn counter_witness<S: Sut>(seed: u64, j: &Job, cname: &str, prop: &str) -> Option<crate::known::Witness> {
    let get = |o: &Outcome<S>| -> u64 {
        match cname {
            "r4" => o.world.st.r4,
            "r5" => o.world.st.r5,
            _ => o.world.st.r6,
        }
    };
    for h in 0..300u64 {
        let o = gen_history::<S>(crate::rng::mix(seed, 900 + h), j.cfg, None);
        if o.viol.is_none() && get(&o) > 0 {
            let (small, _) = shrink_by::<S>(o.script, j.cfg, &|o: &Outcome<S>| o.viol.is_none() && get(o) > 0, 2000);
            let o2 = exec::<S>(&small, j.cfg, false);
            let what = match cname {
                "r4" => "Map::validate_op rejects an in-order op because the nested value checks the dot against its own clock",
                "r5" => "serde_json cannot serialise a state with a non-empty deferred table (key must be a string)",
                _ => "validate_merge reports DoubleSpentDot for the shared dot of a multi-member add_all under correct use",
            };
            let _ = o2;
            return Some(crate::known::Witness { property: prop.to_string(), sut: S::NAME.to_string(), cfg: j.cfg, script: small, kind: String::new(), counter: cname.to_string(), what: what.to_string() });
        }
    }
    None
}


/// Non-deciding smoke workload for interpreters/sanitizers (Miri, valgrind): a handful of short histories
/// of every instantiation with all monitors on. It decides no property; it only shows that the monitored
/// executions are free of undefined behaviour as far as the tool can see (DESIGN §8, §12.5).
pub fn smoke(n: u64, steps: usize) -> u64 {
    crate::taint::set_active(["R1", "R2", "R3", "R4", "R5", "R6", "R7"].iter().map(|s| s.to_string()).collect());
    let mut actions = 0u64;
    for s in all_types(false) {
        let mut c = Cfg::base(3, steps, weakest(s), mon::SPEC | mon::CONV | mon::DUP | mon::STALE | mon::SERDE | mon::CTX | mon::VOP | mon::VMERGE | mon::SEQ | mon::ORDER);
        c.merges = has_merge(s);
        c.dups = true;
        c.shadows = true;
        c.policy = 255;
        let st: CampStats = dispatch!(s, smoke_one, n, c);
        actions += st.actions;
        println!("smoke {s}: histories={} actions={} ops={} violations(unexplained)={}", st.histories, st.actions, st.ops, st.violations.len());
    }
    actions
}
fn smoke_one<S: Sut>(n: u64, c: Cfg) -> CampStats {
    let mut st = CampStats::default();
    for h in 0..n {
        let o = gen_history::<S>(crate::rng::mix(99, h), c, None);
        st.histories += 1;
        st.actions += o.script.len() as u64;
        st.ops += o.world.ops.len() as u64;
    }
    st
}


/// dev helper: markdown table of the jobs behind every property (kept in DESIGN §12.6)
pub fn print_jobs() {
    let names = [
        (mon::SPEC, "model"), (mon::CONV, "equal-K table"), (mon::EQ, "=="), (mon::RESIDUE, "residue"), (mon::DUP, "dup"), (mon::STALE, "stale"),
        (mon::CTX, "contexts"), (mon::VOP, "validate_op"), (mon::VMERGE, "validate_merge"), (mon::SERDE, "serde"), (mon::SEQ, "Vec model"),
        (mon::ORDER, "global order"), (mon::MONO, "monotone"), (mon::STRUCT, "structural"), (mon::LAWS, "merge laws"), (mon::HYBRID, "merge vs ops"),
    ];
    println!("| property | instantiations | job | replicas(+observers) x steps | authoring discipline | monitors | histories quick |");
    println!("|---|---|---|---|---|---|---|");
    for i in 1..=20 {
        let p = format!("C{i:02}");
        let jobs = jobs_for(&p, false);
        // group identical (label, cfg shape) over instantiations
        let mut groups: Vec<(String, Vec<&str>, &Job)> = vec![];
        for j in &jobs {
            let key = format!("{}|{}|{}|{}|{:?}|{}|{}", j.label, j.cfg.nrep, j.cfg.nobs, j.cfg.nsteps, j.cfg.delivery, j.cfg.mon, j.n);
            match groups.iter_mut().find(|g| g.0 == key) {
                Some(g) => g.1.push(j.sut),
                None => groups.push((key, vec![j.sut], j)),
            }
        }
        for (_, suts, j) in groups {
            let mons: Vec<&str> = names.iter().filter(|(m, _)| j.cfg.mon & m != 0).map(|(_, n)| *n).collect();
            let sweep = match j.sweep {
                Some(s) => format!("; sweep {:?} x{}{}{}", s.disc, s.next, if s.exhaustive_upto > 0 { format!(", all orders if <= {} ops", s.exhaustive_upto) } else { String::new() }, if s.merges { ", observers merge" } else { "" }),
                None => String::new(),
            };
            let extra = format!("{}{}{}{}{}", if j.cfg.merges { " merges" } else { "" }, if j.cfg.dups { " dups" } else { "" }, if j.cfg.stale_merges { " stale-merges" } else { "" }, if j.cfg.shadows { " shadows" } else { "" }, if j.cfg.anyk { " every-K" } else { "" });
            println!("| {p} | {} | {}{} | {}(+{}) x {} | {:?}{} | {} | {} |", suts.join(" "), j.label, sweep, j.cfg.nrep, j.cfg.nobs, if j.cfg.policy == 254 { "template".to_string() } else { j.cfg.nsteps.to_string() }, j.cfg.delivery, extra, mons.join(", "), j.n);
        }
    }
}
