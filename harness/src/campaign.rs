//! Workload generation (schedule policies, observer sweeps), delta-debugging shrinker, attribution
//! of violations to known findings, and per-campaign statistics.
use crate::rng::{mix, Rng};
use crate::sut::*;
use crate::taint;
use crate::world::*;
use serde::Serialize;
use std::collections::{BTreeMap, BTreeSet};

#[derive(Clone, Copy, Debug)]
pub struct Sweep {
    /// extensions per history
    pub next: usize,
    /// discipline of the observers
    pub disc: Delivery,
    /// also run causal reference extensions first (needed when disc != Causal)
    pub causal_ref: usize,
    /// enumerate *all* linear extensions when the op set has at most this many ops
    pub exhaustive_upto: usize,
    pub merges: bool,
}

pub struct Outcome<S: Sut> {
    pub script: Vec<Act>,
    pub world: World<S>,
    pub viol: Option<Viol>,
}

thread_local! {
    /// set while the crate under test runs inside catch_unwind (its panics are verdicts, not harness failures)
    pub static IN_ENGINE: std::cell::Cell<bool> = const { std::cell::Cell::new(false) };
}

pub fn exec<S: Sut>(script: &[Act], cfg: Cfg, quiet: bool) -> Outcome<S> {
    let mut w = World::<S>::new(cfg);
    w.quiet = quiet;
    let mut viol = None;
    for (i, a) in script.iter().enumerate() {
        IN_ENGINE.with(|f| f.set(true));
        let res = std::panic::catch_unwind(std::panic::AssertUnwindSafe(|| w.step(a, i)));
        IN_ENGINE.with(|f| f.set(false));
        match res {
            Ok(Ok(_)) => {}
            Ok(Err(v)) => {
                viol = Some(v);
                break;
            }
            Err(p) => {
                let msg = p.downcast_ref::<String>().cloned().or_else(|| p.downcast_ref::<&str>().map(|s| s.to_string())).unwrap_or_default();
                viol = Some(Viol { kind: "panic", detail: format!("panic inside the crate or harness during {a:?}: {msg}"), k: 0 });
                break;
            }
        }
    }
    Outcome { script: script.to_vec(), world: w, viol }
}

fn push_step<S: Sut>(w: &mut World<S>, script: &mut Vec<Act>, a: Act) -> Result<bool, Viol> {
    script.push(a.clone());
    let i = script.len() - 1;
    IN_ENGINE.with(|f| f.set(true));
    let res = std::panic::catch_unwind(std::panic::AssertUnwindSafe(|| w.step(&a, i)));
    IN_ENGINE.with(|f| f.set(false));
    match res {
        Ok(r) => {
            if let Ok(false) = r {
                script.pop();
            }
            r
        }
        Err(p) => {
            let msg = p.downcast_ref::<String>().cloned().or_else(|| p.downcast_ref::<&str>().map(|s| s.to_string())).unwrap_or_default();
            Err(Viol { kind: "panic", detail: format!("panic inside the crate or harness during {a:?}: {msg}"), k: 0 })
        }
    }
}

/// generate one history (authoring run + optional observer sweep), executing it as it is built
pub fn gen_history<S: Sut>(seed: u64, cfg: Cfg, sweep: Option<Sweep>) -> Outcome<S> {
    let mut rng = Rng::new(seed);
    let mut w = World::<S>::new(cfg);
    w.quiet = true;
    let mut script: Vec<Act> = vec![];
    let policy = if cfg.policy == 255 { rng.below(8) as u8 } else { cfg.policy };
    HOT.with(|h| h.set(cfg.policy == 255 && rng.chance(2, 5)));
    let n = cfg.nrep;
    // actor identities: usually replica i edits as actor i; every third history uses spread-out identities whose
    // order differs from the replica order (e.g. 250, 3, 7) so that nothing depends on small, ordered actor ids
    let actor_ids: Vec<u8> = if rng.chance(1, 3) && !cfg.misuse {
        let base = rng.below(256) as u8;
        let stride = [3u8, 101, 255, 17][rng.below(4)];
        (0..n).map(|i| base.wrapping_add(stride.wrapping_mul(i as u8))).collect()
    } else {
        (0..n).map(|i| i as u8).collect()
    };
    macro_rules! go {
        ($a:expr) => {
            let act__ = $a;
            if let Err(v) = push_step(&mut w, &mut script, act__) {
                return Outcome { script, world: w, viol: Some(v) };
            }
        };
    }
    // wide profile: one replica first issues S::WIDE_PREFIX commands over a 12-element domain and everybody receives
    // them, then the history proceeds as usual on the large state
    let wide = cfg.policy == 255 && !cfg.misuse && rng.chance(1, 8);
    WIDE.with(|w| w.set(if wide { 12 } else { 0 }));
    if wide {
        HOT.with(|h| h.set(false));
        let r = rng.below(n);
        for _ in 0..S::WIDE_PREFIX {
            let cmd = S::random_cmd(&mut rng, &w.sh);
            go!(Act::Gen { r, actor: actor_ids[r], cmd, old: 0 });
        }
        for q in 0..n {
            for i in 0..w.ops.len() {
                if q != r && w.know[q] >> i & 1 == 0 {
                    go!(Act::Deliver { r: q, author: w.author[i], seq: w.seqs[i] });
                }
            }
        }
    }
    // fast-forwards: in every sixth history up to three update commands carry a dot far ahead of the author's next
    // one (a long stretch of ops whose effects are gone): counters cross u8/u16/u31/u32 boundaries in mid-history,
    // lagging replicas and stale snapshots are then orders of magnitude behind
    let mut jumps_left = if !cfg.misuse && rng.chance(1, 6) { 3 } else { 0 };
    const JUMPS: [u64; 8] = [250, 65_530, 70_000, 1 << 30, 3 << 29, (1 << 31) + 8, (1 << 32) - 3, 1 << 33];
    if !cfg.misuse && jumps_left == 0 && rng.chance(1, 5) {
        // aged start: every actor has a long past (counters beyond u8 / u16 / u32 ranges) whose effects are gone
        let base: Vec<(u8, u64)> = (0..cfg.nrep).map(|r| (actor_ids[r], [250u64, 65_530, (1 << 32) - 3, 1 << 40][rng.below(4)])).collect();
        if S::aged(&base).is_some() {
            go!(Act::Age { base });
        }
    }
    if cfg.policy == 254 {
        // ---- conflict template: a few writers on one hot path, a nested remover and an outer remover that
        // have each seen a random part of the history, optionally a late writer; 3-7 ops by up to n actors.
        // The observer sweep below then enumerates *all* per-actor-ordered delivery orders of this op set.
        HOT.with(|h| h.set(true));
        let mut roles: Vec<u8> = vec![0; 1 + rng.below(3)];
        if S::NAME == "LI" {
            // sequences need a few more elements before removals become interesting
            roles.extend([0, 0, 0]);
        }
        roles.push(1);
        roles.push(2);
        if rng.chance(1, 2) {
            roles.push(if rng.chance(1, 2) { 0 } else { 1 });
        }
        if rng.chance(1, 3) {
            roles.push(rng.below(3) as u8);
        }
        // order of the removers and late writers is shuffled, the first writer stays first
        for i in (2..roles.len()).rev() {
            let j = 1 + rng.below(i);
            roles.swap(i, j);
        }
        for role in roles {
            let r = rng.below(n);
            // what this author has seen: each earlier op with probability 1/2, closed under causality
            // knowledge profile of this author: everything so far / everything except the newest op (pairwise
            // concurrency on an otherwise shared past) / an arbitrary causally closed subset
            let mut want: Bits = 0;
            let profile = rng.below(4);
            let nops_now = w.ops.len();
            for i in 0..nops_now {
                let take = match profile {
                    0 => true,
                    1 => i + 1 < nops_now,
                    _ => rng.chance(1, 2),
                };
                if take {
                    // closed under the authoring discipline: causal past, or only the same author's earlier ops
                    want |= 1 << i;
                    if cfg.delivery == Delivery::Causal {
                        want |= w.deps[i];
                    } else {
                        for j in 0..i {
                            if w.author[j] == w.author[i] {
                                want |= 1 << j;
                            }
                        }
                    }
                }
            }
            for i in 0..w.ops.len() {
                if want >> i & 1 == 1 && w.know[r] >> i & 1 == 0 {
                    go!(Act::Deliver { r, author: w.author[i], seq: w.seqs[i] });
                }
            }
            if let Some(mut cmd) = S::template_cmd(role, &mut rng) {
                if jumps_left > 0 && rng.chance(1, 4) {
                    cmd.jump = JUMPS[rng.below(JUMPS.len())];
                    jumps_left -= 1;
                }
                go!(Act::Gen { r, actor: actor_ids[r], cmd, old: rng.below(12) });
            }
            if cfg.merges && S::HAS_MERGE && rng.chance(1, 3) {
                go!(Act::Merge { r: rng.below(n), s: rng.below(n) });
            }
        }
        if cfg.merges && S::HAS_MERGE {
            for _ in 0..rng.below(4) {
                go!(Act::Merge { r: rng.below(n), s: rng.below(n) });
            }
        }
        if cfg.nsteps > 0 {
            // local tail: one replica receives the whole conflict and then keeps editing around the same hot
            // positions on its own (depth: many edits at one spot, on top of concurrent siblings)
            let r = rng.below(n);
            for i in 0..w.ops.len() {
                if w.know[r] >> i & 1 == 0 {
                    go!(Act::Deliver { r, author: w.author[i], seq: w.seqs[i] });
                }
            }
            // editing episodes: either one burst (a run of inserts at neighbouring positions, or a run of deletes
            // at one position), or "type forward, delete back, retype": a run typed at p, then the text just
            // before/inside it deleted, then an insert where the deleted text was
            let mut left = cfg.nsteps as isize;
            let ed = |role: usize, w: &mut World<S>, script: &mut Vec<Act>, rng: &mut Rng| -> Result<(), Viol> {
                if let Some(cmd) = S::template_cmd(role as u8, rng) {
                    push_step(w, script, Act::Gen { r, actor: actor_ids[r], cmd, old: rng.below(12) })?;
                }
                Ok(())
            };
            while left > 0 {
                let mut roles: Vec<usize> = vec![];
                if rng.chance(1, 2) {
                    let ix = rng.below(5);
                    let del = rng.chance(1, 3);
                    for k in 0..1 + rng.below(4) {
                        roles.push(if del { 32 + ix } else { 16 + ix + k });
                    }
                } else {
                    let p = 1 + rng.below(3);
                    let k = 2 + rng.below(3);
                    for j in 0..k {
                        roles.push(16 + p + j);
                    }
                    let q = [p - 1, p, 0, 1][rng.below(4)];
                    for _ in 0..1 + rng.below(k) {
                        roles.push(32 + q);
                    }
                    roles.push(16 + q);
                }
                for role in roles {
                    if let Err(v) = ed(role, &mut w, &mut script, &mut rng) {
                        return Outcome { script, world: w, viol: Some(v) };
                    }
                    left -= 1;
                }
            }
        }
    }
    for stepno in 0..(if cfg.policy == 254 { 0 } else { cfg.nsteps }) {
        let r = rng.below(n);
        let frac = stepno * 10 / cfg.nsteps.max(1);
        let mut choice = rng.below(10);
        match policy {
            1 => {
                // lazy: author first, deliver late
                if frac < 5 && choice >= 4 && rng.chance(2, 3) {
                    choice = 0;
                }
            }
            5 => {
                if cfg.merges && choice >= 4 && choice < 8 && rng.chance(2, 3) {
                    choice = 9;
                }
            }
            _ => {}
        }
        if cfg.shadows && rng.chance(1, 8) {
            go!(Act::Shadow { r });
        }
        if choice < 4 || w.ops.is_empty() {
            let actor = if cfg.misuse && rng.chance(1, 3) { 7 } else { actor_ids[r] };
            let mut cmd = S::random_cmd(&mut rng, &w.sh);
            if jumps_left > 0 && rng.chance(1, 5) {
                cmd.jump = JUMPS[rng.below(JUMPS.len())];
                jumps_left -= 1;
            }
            let burst = wide && cmd.k == "rm_key" && rng.chance(1, 2);
            go!(Act::Gen { r, actor, cmd: cmd.clone(), old: rng.below(12) });
            if burst {
                // several keys removed in one go from one read of the map: removes do not advance the clock, so all of
                // them carry the same context and a replica that has to park them holds one keyset of 5-8 keys
                for _ in 0..4 + rng.below(4) {
                    let mut c2 = cmd.clone();
                    c2.a = vec![rand_key(&mut rng)];
                    c2.src = "read_ctx".into();
                    c2.stale = false;
                    go!(Act::Gen { r, actor, cmd: c2, old: 0 });
                }
            }
        } else if choice < 8 || !cfg.merges || !S::HAS_MERGE {
            // delivery, restricted by policy
            let slow = policy == 4 && r == 0 && frac < 8;
            let group = |x: usize| x % 2;
            let mut cands: Vec<usize> = (0..w.ops.len()).filter(|&i| w.know[r] >> i & 1 == 0 && w.deliverable(r, i)).collect();
            if policy == 2 && frac < 6 {
                cands.retain(|&i| group(w.author[i]) == group(r));
            }
            if slow {
                cands.clear();
            }
            let dup_cands: Vec<usize> = if cfg.dups { (0..w.ops.len()).filter(|&i| w.know[r] >> i & 1 == 1).collect() } else { vec![] };
            let want_dup = !dup_cands.is_empty() && (cands.is_empty() || rng.chance(if policy == 6 { 2 } else { 1 }, 4));
            if want_dup {
                // late re-delivery: bias to old ops
                let i = if rng.chance(1, 2) { dup_cands[rng.below(dup_cands.len().min(3))] } else { *rng.pick(&dup_cands) };
                go!(Act::Deliver { r, author: w.author[i], seq: w.seqs[i] });
            } else if !cands.is_empty() {
                let i = match policy {
                    3 => *cands.last().unwrap(),
                    _ => *rng.pick(&cands),
                };
                go!(Act::Deliver { r, author: w.author[i], seq: w.seqs[i] });
                if policy == 6 {
                    for _ in 0..rng.below(3) {
                        go!(Act::Deliver { r, author: w.author[i], seq: w.seqs[i] });
                    }
                }
            }
        } else if cfg.stale_merges && !w.pool.is_empty() && rng.chance(if policy == 7 { 2 } else { 1 }, 3) {
            go!(Act::MergePool { r, p: rng.below(64) });
        } else {
            let s = rng.below(n);
            if policy == 2 && frac < 6 && s % 2 != r % 2 {
                continue;
            }
            go!(Act::Merge { r, s });
        }
    }
    // consistent-cut sweep by observer replicas
    if let Some(sw) = sweep {
        let nops = w.ops.len();
        if nops >= 2 && cfg.nobs > 0 {
            let o0 = cfg.nrep;
            let plan: Vec<(Delivery, usize)> = if sw.disc == Delivery::Causal { vec![(Delivery::Causal, sw.next)] } else { vec![(Delivery::Causal, sw.causal_ref), (sw.disc, sw.next)] };
            for (disc, count) in plan {
                if nops <= sw.exhaustive_upto {
                    // every linear extension of the discipline's order
                    let mut orders: Vec<Vec<usize>> = vec![];
                    let mut cur: Vec<usize> = vec![];
                    all_extensions(&w, disc, 0, &mut cur, &mut orders, 6000);
                    for ord in orders {
                        go!(Act::Reset { r: o0, disc });
                        for i in ord {
                            go!(Act::Deliver { r: o0, author: w.author[i], seq: w.seqs[i] });
                        }
                    }
                    if !(sw.merges && cfg.nobs > 1) {
                        continue;
                    }
                    // with several observers: additionally random extensions with merges *between* observers
                }
                if sw.merges && cfg.nobs > 1 && S::HAS_MERGE {
                    // several observers fed *concurrently*, each along its own extension, exchanging their partial
                    // states at random points (pending removes / orphans travel inside merged states)
                    for _e in 0..count {
                        for o in o0..o0 + cfg.nobs {
                            go!(Act::Reset { r: o, disc });
                        }
                        for _ in 0..nops * cfg.nobs * 2 {
                            let o = o0 + rng.below(cfg.nobs);
                            let k = w.know[o];
                            let cands: Vec<usize> = (0..nops).filter(|&i| k >> i & 1 == 0 && w.deliverable_under(disc, k, i)).collect();
                            if !cands.is_empty() {
                                let nc: Vec<usize> = cands.iter().cloned().filter(|&i| w.deps[i] & !k != 0).collect();
                                let i = if !nc.is_empty() && rng.chance(2, 3) { *rng.pick(&nc) } else { *rng.pick(&cands) };
                                go!(Act::Deliver { r: o, author: w.author[i], seq: w.seqs[i] });
                            }
                            if rng.chance(1, 4) {
                                let s = o0 + rng.below(cfg.nobs);
                                go!(Act::Merge { r: o, s });
                            }
                        }
                    }
                    continue;
                }
                for e in 0..count {
                    let o = o0 + if sw.merges && cfg.nobs > 1 { e % cfg.nobs } else { 0 };
                    go!(Act::Reset { r: o, disc });
                    for _ in 0..nops {
                        let k = w.know[o];
                        let cands: Vec<usize> = (0..nops).filter(|&i| k >> i & 1 == 0 && w.deliverable_under(disc, k, i)).collect();
                        if cands.is_empty() {
                            break;
                        }
                        let i = match e % 4 {
                            0 => *rng.pick(&cands),
                            1 => *cands.last().unwrap(),
                            2 => cands[rng.below(cands.len().min(2))],
                            // adversarial: prefer ops that are *not* causally ready (removes before the adds they cover)
                            _ => {
                                let nc: Vec<usize> = cands.iter().cloned().filter(|&i| w.deps[i] & !k != 0).collect();
                                if !nc.is_empty() {
                                    *rng.pick(&nc)
                                } else {
                                    *rng.pick(&cands)
                                }
                            }
                        };
                        go!(Act::Deliver { r: o, author: w.author[i], seq: w.seqs[i] });
                        if cfg.dups && rng.chance(1, 6) {
                            let kn: Vec<usize> = (0..nops).filter(|&i| w.know[o] >> i & 1 == 1).collect();
                            let j = *rng.pick(&kn);
                            go!(Act::Deliver { r: o, author: w.author[j], seq: w.seqs[j] });
                        }
                        if sw.merges && S::HAS_MERGE && cfg.nobs > 1 && rng.chance(1, 8) {
                            let s = o0 + rng.below(cfg.nobs);
                            go!(Act::Merge { r: o, s });
                        }
                    }
                }
            }
        }
    }
    // merge-law probes over the recorded pool (authors' and observers' states, incl. partially fed observers)
    for _ in 0..cfg.laws {
        let kinds: Vec<u8> = [(mon::LAWS, 0u8), (mon::LAWS, 1), (mon::LAWS, 2), (mon::HYBRID, 3)].iter().filter(|(m, _)| cfg.has(*m)).map(|(_, k)| *k).collect();
        if kinds.is_empty() {
            break;
        }
        let kind = *rng.pick(&kinds);
        // bias towards pairwise-incomparable operands and operands with pending removes
        let mut best = (rng.below(64), rng.below(64), rng.below(64));
        if !w.pool.is_empty() {
            for _ in 0..6 {
                let c = (rng.below(w.pool.len()), rng.below(w.pool.len()), rng.below(w.pool.len()));
                let (ka, kb, kc) = (w.pool[c.0].1, w.pool[c.1].1, w.pool[c.2].1);
                let inc = |x: Bits, y: Bits| x & !y != 0 && y & !x != 0;
                if inc(ka, kb) && (kind != 1 || (inc(kb, kc) && inc(ka, kc))) {
                    best = c;
                    break;
                }
                best = c;
            }
        }
        go!(Act::Law { kind, i: best.0, j: best.1, k: best.2 });
    }
    Outcome { script, world: w, viol: None }
}

fn all_extensions<S: Sut>(w: &World<S>, disc: Delivery, k: Bits, cur: &mut Vec<usize>, out: &mut Vec<Vec<usize>>, cap: usize) {
    let n = w.ops.len();
    if out.len() >= cap {
        return;
    }
    if cur.len() == n {
        out.push(cur.clone());
        return;
    }
    for i in 0..n {
        if k >> i & 1 == 0 && w.deliverable_under(disc, k, i) {
            cur.push(i);
            all_extensions(w, disc, k | 1 << i, cur, out, cap);
            cur.pop();
        }
    }
}

/// delta debugging (ddmin-style: chunks of decreasing size, then single actions to fixpoint);
/// a candidate is kept iff the *same monitor kind* still fires.
pub fn shrink<S: Sut>(script: Vec<Act>, cfg: Cfg, kind: &'static str, budget: usize) -> (Vec<Act>, usize) {
    shrink_by::<S>(script, cfg, &|o: &Outcome<S>| matches!(&o.viol, Some(v) if v.kind == kind), budget)
}

pub fn shrink_by<S: Sut>(script: Vec<Act>, cfg: Cfg, pred: &dyn Fn(&Outcome<S>) -> bool, budget: usize) -> (Vec<Act>, usize) {
    let mut script = script;
    let mut execs = 0usize;
    let fails = |s: &[Act], execs: &mut usize| -> bool {
        *execs += 1;
        pred(&exec::<S>(s, cfg, true))
    };
    let mut chunk = (script.len() / 2).max(1);
    loop {
        let mut changed = false;
        let mut i = 0;
        while i < script.len() && execs < budget {
            let end = (i + chunk).min(script.len());
            let mut cand = script[..i].to_vec();
            cand.extend_from_slice(&script[end..]);
            if fails(&cand, &mut execs) {
                script = cand;
                changed = true;
            } else {
                i += chunk;
            }
        }
        if execs >= budget {
            break;
        }
        if chunk > 1 {
            chunk = (chunk / 2).max(1);
        } else if !changed {
            break;
        }
    }
    (script, execs)
}

#[derive(Clone, Debug, Serialize)]
pub struct Finding {
    pub kind: String,
    pub sut: String,
    pub finding: Option<String>,
    pub detail: String,
    pub taints: Vec<String>,
    pub seed: u64,
    pub cfg: serde_json::Value,
    pub script: Vec<Act>,
    pub log: Vec<String>,
    pub shrunk: bool,
}

#[derive(Default)]
pub struct CampStats {
    pub histories: u64,
    pub actions: u64,
    pub ops: u64,
    pub h: HStats,
    pub tainted: u64,
    pub untainted: u64,
    pub attributed: BTreeMap<String, u64>,
    pub attributed_unshrunk: BTreeMap<String, u64>,
    pub violations: Vec<Finding>,
    pub known_samples: BTreeMap<String, Finding>,
    pub samples: Vec<serde_json::Value>,
    pub schedules: BTreeSet<u64>,
    pub shrink_execs: u64,
    pub taint_counts: BTreeMap<String, u64>,
    pub per_sut: BTreeMap<String, u64>,
}
impl CampStats {
    pub fn merge(&mut self, o: CampStats) {
        self.histories += o.histories;
        self.actions += o.actions;
        self.ops += o.ops;
        self.h.add(&o.h);
        self.tainted += o.tainted;
        self.untainted += o.untainted;
        for (k, v) in o.attributed {
            *self.attributed.entry(k).or_default() += v;
        }
        for (k, v) in o.attributed_unshrunk {
            *self.attributed_unshrunk.entry(k).or_default() += v;
        }
        for (k, v) in o.taint_counts {
            *self.taint_counts.entry(k).or_default() += v;
        }
        for (k, v) in o.per_sut {
            *self.per_sut.entry(k).or_default() += v;
        }
        self.violations.extend(o.violations);
        for (k, v) in o.known_samples {
            self.known_samples.entry(k).or_insert(v);
        }
        // one sample history per job, so that the evidence shows different instantiations
        if self.samples.len() < 12 && !self.samples.iter().any(|x| o.samples.first().map(|y| x["sut"] == y["sut"] && x["actions"] == y["actions"]).unwrap_or(false)) {
            self.samples.extend(o.samples.into_iter().take(1));
        }
        self.schedules.extend(o.schedules);
        self.shrink_execs += o.shrink_execs;
    }
}


pub fn taints_of<S: Sut>(w: &World<S>, cfg: &Cfg, k: Bits) -> BTreeSet<&'static str> {
    let facts = if k != 0 { w.facts_of(k) } else { w.facts.clone() };
    taint::taints(&facts, &w.facts, w.t1_fired, w.t2_fired, w.t7_fired)
}

pub fn schedule_hash(script: &[Act]) -> u64 {
    let mut h = 1u64;
    for a in script {
        let x = match a {
            Act::Gen { r, .. } => 1000 + *r as u64,
            Act::Deliver { r, author, seq } => 2000 + (*r as u64) * 10007 + (*author as u64) * 101 + *seq as u64,
            Act::Merge { r, s } => 3000 + (*r * 10 + *s) as u64,
            Act::MergePool { r, p } => 4000 + (*r * 100 + *p) as u64,
            Act::Reset { r, .. } => 5000 + *r as u64,
            Act::Shadow { r } => 6000 + *r as u64,
            Act::Law { kind, .. } => 7000 + *kind as u64,
            Act::Age { base } => 8000 + base.iter().map(|(a, b)| *a as u64 * 31 + (*b % 1009)).sum::<u64>(),
        };
        h = mix(h, x);
    }
    h
}

/// run `n` histories for one instantiation on one thread-slice of the seed space
pub fn run_slice<S: Sut>(base_seed: u64, from: u64, to: u64, cfg: Cfg, sweep: Option<Sweep>, shrink_cap: usize) -> CampStats {
    let mut st = CampStats::default();
    let mut shrunk_per_finding: BTreeMap<String, usize> = BTreeMap::new();
    for h in from..to {
        let seed = mix(base_seed, h.wrapping_mul(7919).wrapping_add(13));
        let out = gen_history::<S>(seed, cfg, sweep);
        st.histories += 1;
        *st.per_sut.entry(S::NAME.to_string()).or_default() += 1;
        st.actions += out.script.len() as u64;
        st.ops += out.world.ops.len() as u64;
        st.h.add(&out.world.st);
        if st.schedules.len() < 200_000 {
            st.schedules.insert(schedule_hash(&out.script));
        }
        let full_t = taints_of(&out.world, &cfg, 0);
        for t in &full_t {
            *st.taint_counts.entry(t.to_string()).or_default() += 1;
        }
        let tainted_hist = ["T1", "T2", "T3", "T7"].iter().any(|t| full_t.contains(t));
        if tainted_hist {
            st.tainted += 1
        } else {
            st.untainted += 1
        }
        if st.samples.len() < 2 && out.viol.is_none() && out.script.len() >= 4 {
            let o2 = exec::<S>(&out.script, cfg, false);
            st.samples.push(serde_json::json!({"sut": S::NAME, "seed": seed, "actions": out.script.len(), "ops": o2.world.ops.len(), "log": o2.world.log.iter().take(30).collect::<Vec<_>>()}));
        }
        let Some(v) = out.viol else { continue };
        // attribution (DESIGN §5)
        let t_k = taints_of(&out.world, &cfg, v.k);
        let quick_explain = taint::explains(v.kind, &t_k, S::IS_MAP);
        let mk = |o: &Outcome<S>, v: &Viol, f: Option<&str>, t: &BTreeSet<&'static str>, shrunk: bool| -> Finding {
            let o2 = exec::<S>(&o.script, cfg, false);
            Finding { kind: v.kind.to_string(), sut: S::NAME.to_string(), finding: f.map(|s| s.to_string()), detail: v.detail.clone(), taints: t.iter().map(|s| s.to_string()).collect(), seed, cfg: serde_json::to_value(cfg).unwrap(), script: o.script.clone(), log: o2.world.log, shrunk }
        };
        match quick_explain {
            None => {
                // no applicable trigger on the full history: a VIOLATION outright (shrunk for readability)
                let (small, ex) = shrink::<S>(out.script.clone(), cfg, v.kind, 3000);
                st.shrink_execs += ex as u64;
                let o = exec::<S>(&small, cfg, true);
                let v2 = o.viol.clone().unwrap_or(v.clone());
                let t2 = taints_of(&o.world, &cfg, 0);
                st.violations.push(mk(&o, &v2, None, &t2, true));
            }
            Some(fid) => {
                let key = format!("{}:{}:{}", fid, v.kind, S::NAME);
                let cnt = shrunk_per_finding.entry(key.clone()).or_default();
                if *cnt < shrink_cap {
                    *cnt += 1;
                    let (small, ex) = shrink::<S>(out.script.clone(), cfg, v.kind, 1500);
                    st.shrink_execs += ex as u64;
                    let o = exec::<S>(&small, cfg, true);
                    let v2 = o.viol.clone().unwrap_or(v.clone());
                    let t2 = taints_of(&o.world, &cfg, 0);
                    match taint::explains(v2.kind, &t2, S::IS_MAP) {
                        Some(f2) => {
                            *st.attributed.entry(format!("{f2}:{}", v2.kind)).or_default() += 1;
                            st.known_samples.entry(format!("{f2}:{}:{}:{}", v2.kind, S::NAME, t2.iter().cloned().collect::<Vec<_>>().join("+"))).or_insert_with(|| mk(&o, &v2, Some(f2), &t2, true));
                        }
                        None => st.violations.push(mk(&o, &v2, None, &t2, true)),
                    }
                } else {
                    *st.attributed_unshrunk.entry(format!("{fid}:{}", v.kind)).or_default() += 1;
                }
            }
        }
    }
    st
}

/// shard a campaign over worker threads
pub fn campaign<S: Sut>(base_seed: u64, n: u64, cfg: Cfg, sweep: Option<Sweep>, threads: usize, shrink_cap: usize) -> CampStats {
    let mut total = CampStats::default();
    let per = (n + threads as u64 - 1) / threads as u64;
    let parts: Vec<CampStats> = std::thread::scope(|sc| {
        let hs: Vec<_> = (0..threads as u64)
            .map(|t| {
                let from = t * per;
                let to = ((t + 1) * per).min(n);
                sc.spawn(move || if from < to { run_slice::<S>(base_seed, from, to, cfg, sweep, shrink_cap) } else { CampStats::default() })
            })
            .collect();
        hs.into_iter().map(|h| h.join().expect("worker panicked")).collect()
    });
    for p in parts {
        total.merge(p);
    }
    total
}
