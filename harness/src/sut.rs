//! The interface between the generic engine and one instantiation under test ("adapter").
//! An adapter drives the *real* crate type through its public API only.
use crate::dump::Dump;
use serde::{de::DeserializeOwned, Serialize};
use std::collections::{BTreeMap, HashMap};
use std::fmt::Debug;

pub type A = u8;
pub type Bits = u128;
pub type Clk = BTreeMap<A, u64>;
pub type DotT = (A, u64);

pub fn vc(c: &crdts::VClock<A>) -> Clk {
    c.dots.clone()
}
pub fn mkvc(c: &Clk) -> crdts::VClock<A> {
    c.iter().map(|(a, n)| crdts::Dot::new(*a, *n)).collect()
}
pub fn cget(c: &Clk, a: A) -> u64 {
    *c.get(&a).unwrap_or(&0)
}
pub fn cov(c: &Clk, d: DotT) -> bool {
    cget(c, d.0) >= d.1
}
pub fn cjoin(c: &mut Clk, d: DotT) {
    if d.1 == 0 {
        return;
    }
    let e = c.entry(d.0).or_insert(0);
    *e = (*e).max(d.1);
}
pub fn cjoin_all(c: &mut Clk, o: &Clk) {
    for (a, n) in o {
        cjoin(c, (*a, *n));
    }
}
pub fn cle(a: &Clk, b: &Clk) -> bool {
    a.iter().all(|(x, n)| cget(b, *x) >= *n)
}

/// weakest delivery discipline a type is specified for
#[derive(Clone, Copy, PartialEq, Eq, Debug, Serialize, serde::Deserialize, PartialOrd, Ord, Hash)]
pub enum Delivery {
    Causal,
    Fifo,
    Any,
}

#[derive(Clone, Debug, PartialEq)]
pub enum Leaf {
    None,
    Add(Vec<u8>),
    SetRm(Clk, Vec<u8>),
    Put(Clk, u32),
}

/// What the harness *asked for* when it generated an op — built from harness-side data (expected
/// dot from the harness's own per-actor counter, remove contexts as handed out by the real reads),
/// never by parsing the op the crate returned.
#[derive(Clone, Debug, PartialEq)]
pub enum Fact {
    /// dot-carrying update (Orswot add at path [], Map update at key path)
    Up { dot: DotT, path: Vec<u8>, leaf: Leaf },
    /// key removal at `path` (full key path); `carrier` = dot of the enclosing update for inner removals
    Rm { ctx: Clk, path: Vec<u8>, carrier: Option<DotT> },
    Dot(DotT),
    /// GCounter/PNCounter: running total of the author in that direction *after* this op
    Count { actor: A, neg: bool, total: u128 },
    Elem(i64),
    Lww { val: u32, marker: (u64, u8) },
    MvPut { val: u32, actor: A, idx: u64 },
    Ins { elem: u32, dot: DotT },
    Del { elem: u32, dot: DotT },
    GIns { elem: u32 },
    Node { idx: usize, children: Vec<usize>, hash: [u8; 32] },
}

/// harness-side shadow state shared by all replicas of one history
#[derive(Clone, Debug)]
pub struct Shadow {
    pub uniq: u32,
    pub ndots: [u64; 256],
    pub totals: [[u128; 2]; 256],
    pub lamport: u64,
    pub nwrites: [u64; 256],
    /// MerkleReg: hash -> node index (= op id)
    pub node_of_hash: HashMap<[u8; 32], usize>,
    pub next_op_id: usize,
    /// misuse configuration: every replica edits through actor 7 with some probability
    pub misuse: bool,
    /// MVReg equal-values configuration
    pub equal_vals: bool,
}
impl Default for Shadow {
    fn default() -> Self {
        Shadow { uniq: 0, ndots: [0; 256], totals: [[0; 2]; 256], lamport: 0, nwrites: [0; 256], node_of_hash: HashMap::new(), next_op_id: 0, misuse: false, equal_vals: false }
    }
}
impl Shadow {
    pub fn uniq(&mut self) -> u32 {
        self.uniq += 1;
        self.uniq
    }
    pub fn take_dot(&mut self, a: A) -> DotT {
        self.ndots[a as usize] += 1;
        (a, self.ndots[a as usize])
    }
    /// the actor's next dot after skipping `jump` counters (fast-forward)
    pub fn take_dot_j(&mut self, a: A, jump: u64) -> DotT {
        self.ndots[a as usize] += 1 + jump;
        (a, self.ndots[a as usize])
    }
}

/// observation record of one state, taken through every public read entry point
#[derive(Clone, Debug, PartialEq, Eq, Hash)]
pub struct Obs {
    pub reads: Dump,
    pub ctx: Dump,
    /// entry points that disagree with each other (always a violation)
    pub incoherent: Option<String>,
}
impl Obs {
    pub fn show(&self) -> String {
        match &self.incoherent {
            Some(s) => format!("reads={} ctx={} INCOHERENT({})", self.reads.show(), self.ctx.show(), s),
            None => format!("reads={} ctx={}", self.reads.show(), self.ctx.show()),
        }
    }
}

pub struct Gen<Op> {
    pub op: Op,
    pub facts: Vec<Fact>,
    /// human readable description of the abstract command
    pub desc: String,
    /// the dot the harness expects the op to carry (its own counter)
    pub want_dot: Option<DotT>,
    /// what `derive_add_ctx` actually returned: (dot, ctx clock, add_clock of the read it came from)
    pub derived: Option<(DotT, Clk, Clk)>,
    /// values the target register showed to the author when it wrote (read-from set)
    pub rf_vals: Vec<u32>,
    /// vec-model expectation for sequence types: the local sequence expected right after applying the op
    pub expect_seq: Option<Vec<u32>>,
    /// remove contexts used (clock, is it for a top-level element) for C07's "rm ctx dots are update dots"
    pub rm_ctxs: Vec<Clk>,
    /// the dot the op itself reports through its public accessor (List ops)
    pub op_dot: Option<DotT>,
    /// hand-built fast-forward op (skips counters: a gap by construction, also at its origin)
    pub jumped: bool,
}
impl<Op> Gen<Op> {
    pub fn new(op: Op, desc: String) -> Self {
        Gen { op, facts: vec![], desc, want_dot: None, derived: None, rf_vals: vec![], expect_seq: None, rm_ctxs: vec![], op_dot: None, jumped: false }
    }
}

/// Abstract, replayable command. Scripts store these (never ops, never random bytes): the adapter
/// interprets a command against the live state through the public API, so a script keeps its meaning on a
/// modified tree, after shrinking, and across harness versions (new command kinds may be added, the
/// interpretation of existing ones is stable).
#[derive(Clone, Debug, PartialEq, Serialize, serde::Deserialize, Default)]
pub struct Cmd {
    /// command kind, e.g. "add", "add_all", "rm", "rm_all", "update", "rm_key", "write", "inc", "insert" ...
    pub k: String,
    /// arguments: members / key / index / steps ...
    #[serde(default)]
    pub a: Vec<u64>,
    /// which read entry point supplies the context ("contains", "iter", "read", "read_ctx", "get", "keys", "len", "is_empty")
    #[serde(default)]
    pub src: String,
    /// take the remove context from an older state of the same replica (`Act::Gen.old`)
    #[serde(default)]
    pub stale: bool,
    /// nested command for `update`
    #[serde(default)]
    pub sub: Option<Box<Cmd>>,
    /// fast-forward: the op carries the author's dot `jump` counters further on than its next one, as if the author
    /// had meanwhile issued `jump` ops whose effects were all removed again (add/remove cycles on a scratch element)
    #[serde(default)]
    pub jump: u64,
}
impl Cmd {
    pub fn new(k: &str, a: Vec<u64>) -> Cmd {
        Cmd { k: k.to_string(), a, src: String::new(), stale: false, sub: None, jump: 0 }
    }
    pub fn src(mut self, s: &str) -> Cmd {
        self.src = s.to_string();
        self
    }
    pub fn stale(mut self, st: bool) -> Cmd {
        self.stale = st;
        self
    }
    pub fn sub(mut self, c: Cmd) -> Cmd {
        self.sub = Some(Box::new(c));
        self
    }
    pub fn jump(mut self, j: u64) -> Cmd {
        self.jump = j;
        self
    }
    pub fn arg(&self, i: usize) -> u64 {
        self.a.get(i).cloned().unwrap_or(0)
    }
    pub fn show(&self) -> String {
        let mut s = format!("{}{:?}", self.k, self.a);
        if !self.src.is_empty() {
            s += &format!("@{}{}", if self.stale { "stale-" } else { "" }, self.src);
        }
        if let Some(c) = &self.sub {
            s += &format!(".{}", c.show());
        }
        s
    }
}

pub struct SpecIn<'a> {
    /// (op id, fact) for every op in K
    pub facts: &'a [(usize, Fact)],
    /// facts of every op of the history (needed for clocks of writes whose read-from closure leaves K)
    pub all: &'a [(usize, Fact)],
    /// past(i, j): write i is in the read-from closure of write j
    pub past: &'a dyn Fn(usize, usize) -> bool,
    /// clock of the "aged" initial state every replica started from (empty unless the history begins with Act::Age)
    pub base: &'a Clk,
}

pub trait Sut: Clone + Debug + PartialEq + Serialize + DeserializeOwned + Send + 'static {
    type Op: Clone + Debug + Serialize + DeserializeOwned + Send + 'static;
    const NAME: &'static str;
    const WEAKEST: Delivery;
    const HAS_MERGE: bool = true;
    const IS_MAP: bool = false;
    const HAS_RESET: bool = false;
    /// is the reference model claimed at knowledge sets that are not causally closed?
    /// (false for Map<_,MVReg>: a put carries the whole map clock as context, so at a non-closed K the
    /// read-from model and the context the op really carries legitimately differ; see DESIGN §5a)
    const ANYK_OK: bool = true;
    fn new() -> Self;
    /// draw a random abstract command (domain-sized arguments; indices are reduced modulo the live length at execution)
    fn random_cmd(rng: &mut crate::rng::Rng, sh: &Shadow) -> Cmd;
    /// commands of the *conflict templates* (campaign::gen_history, policy 254): role 0 = writer on the hot path,
    /// role 1 = nested remover on the hot path, role 2 = outer remover of the hot key; None = no templates for this type
    fn template_cmd(_role: u8, _rng: &mut crate::rng::Rng) -> Option<Cmd> {
        None
    }
    /// the state of a replica after a long past in which every actor a has issued base[a] ops whose effects have all
    /// been removed again (built through the public API from ops carrying those dots): empty contents, clock = base.
    /// None = the type has no such state / aging is not modelled for it
    fn aged(_base: &[(A, u64)]) -> Option<Self> {
        None
    }
    /// number of commands one replica issues up front in a "wide" history (many elements before the conflicts start)
    const WIDE_PREFIX: usize = 10;
    /// interpret a command at replica `actor` against the current state through the public API
    fn gen(&self, actor: A, cmd: &Cmd, sh: &mut Shadow, old: &Self) -> Option<Gen<Self::Op>>;
    fn apply_op(&mut self, op: Self::Op);
    fn merge_from(&mut self, _other: Self) {
        unreachable!("{} has no merge", Self::NAME)
    }
    fn observe(&self) -> Obs;
    fn spec(inp: &SpecIn) -> Obs;
    /// how a real observation is compared with the model's (default: equal reads)
    fn reads_match(obs: &Obs, spec: &Obs) -> bool {
        obs.reads == spec.reads
    }
    fn validate_op_s(&self, op: &Self::Op) -> Result<(), String>;
    fn validate_merge_s(&self, _other: &Self) -> Result<(), String> {
        Ok(())
    }
    fn reset_remove_c(&mut self, _c: &Clk) {}
    /// apply a remove whose context lies in the replica's future (what per-actor-ordered delivery produces when a
    /// remove overtakes the adds it observed), so that the state holds pending removes; E2 workloads only
    fn inject_future_remove(&mut self, _ctx: &Clk, _target: u8) {}
    /// dot the *real* derive_add_ctx would hand out to `actor` now (types with read contexts)
    fn next_dot(&self, _actor: A) -> Option<(DotT, Clk, Clk)> {
        None
    }
}

// domain sizes (tiny on purpose: everything collides); enlarged in the thorough tier
use std::sync::atomic::{AtomicU8, Ordering};
pub static NK: AtomicU8 = AtomicU8::new(2);
pub static NM: AtomicU8 = AtomicU8::new(3);
pub fn nk() -> u8 {
    NK.load(Ordering::Relaxed)
}
pub fn nm() -> u8 {
    NM.load(Ordering::Relaxed)
}

thread_local! {
    /// "hot path" profile of the current history: most commands hit key 0 / member 0 at every level, so that
    /// scenarios needing several actors on *one* key path (nested removes vs outer removes vs concurrent
    /// writers) become likely instead of being diluted over the key space
    pub static HOT: std::cell::Cell<bool> = const { std::cell::Cell::new(false) };
}
thread_local! {
    /// "wide" profile of the current history: keys and members are drawn from a domain of this size (0 = off) and
    /// batches hold 5-8 items, so that sets/maps with many elements, long keysets and big batches occur
    pub static WIDE: std::cell::Cell<u8> = const { std::cell::Cell::new(0) };
}
pub fn wide() -> u8 {
    WIDE.with(|w| w.get())
}
pub fn rand_key(rng: &mut crate::rng::Rng) -> u64 {
    if wide() > 0 {
        return rng.below(wide() as usize) as u64;
    }
    if HOT.with(|h| h.get()) && rng.chance(4, 5) {
        0
    } else {
        rng.below(nk() as usize) as u64
    }
}
pub fn rand_member(rng: &mut crate::rng::Rng) -> u64 {
    if wide() > 0 {
        return rng.below(wide() as usize) as u64;
    }
    if HOT.with(|h| h.get()) && rng.chance(3, 5) {
        0
    } else {
        rng.below(nm() as usize) as u64
    }
}
