//! Known-finding attribution: trigger predicates over the *history* (flattened facts), never over
//! implementation state. See DESIGN.md §5 and §9.
use crate::spec::is_prefix;
use crate::sut::*;
use std::collections::BTreeSet;

/// `all` = facts of the whole history (needed to tell whether a context dot belongs to another key);
/// `t7_fired` = the schedule-level R7 trigger (see `r7_state`) held at some replica at some step
pub fn taints(facts: &[(usize, Fact)], all: &[(usize, Fact)], t1_fired: bool, t2_fired: bool, t7_fired: bool) -> BTreeSet<&'static str> {
    let mut t = BTreeSet::new();
    for (_, f) in facts {
        match f {
            Fact::Up { leaf: Leaf::Add(ms), .. } if ms.len() > 1 => {
                t.insert("T6");
            }
            _ => {}
        }
    }
    // T1 (R1): a register write w nested in a map is identified by its whole context clock c. A dot (a, c[a]) of
    // ANOTHER actor in c makes R1 bite in exactly three ways (a sharper "dot of another key" variant was tried first and
    // failed calibration; this one names the mechanisms one by one):
    //  (i)   the update with dot (a, c[a]) is not under w's key path: no entry clock of that path ever holds it, so a
    //        key removal that saw w cannot cover it and w survives / merge resets w's clock differently per replica;
    //  (ii)  it is under the path, but some key removal covers it without covering w's own dot: later removal
    //        contexts (entry clocks) no longer hold it while w's clock still does;
    //  (m2)  some replica applied w without having applied that update (non-causal delivery): domination tests
    //        between value clocks fail there. (m2) is schedule-level: `t1_fired`.
    for (_, f) in facts {
        if let Fact::Up { dot, leaf: Leaf::Put(c, _), path } = f {
            if path.is_empty() {
                continue;
            }
            for (a, n) in c {
                if *a == dot.0 || *n == 0 {
                    continue;
                }
                let under = all.iter().any(|(_, g)| matches!(g, Fact::Up { dot: d2, path: p2, .. } if *d2 == (*a, *n) && is_prefix(path, p2)));
                if !under {
                    t.insert("T1");
                }
                let split = facts.iter().any(|(_, g)| matches!(g, Fact::Rm { ctx, path: rp, .. } if is_prefix(rp, path) && cov(ctx, (*a, *n)) && !cov(ctx, *dot)));
                if split {
                    t.insert("T1");
                }
            }
        }
    }
    if t1_fired {
        t.insert("T1");
    }
    for (rid, r) in facts {
        if let Fact::Rm { ctx, path: rp, .. } = r {
            let _ = ctx;
            // nested removes under the removed key path
            for (nid, n) in facts {
                let (nctx, npath) = match n {
                    Fact::Up { path, leaf: Leaf::SetRm(c, _), .. } if !path.is_empty() => (c, path.clone()),
                    Fact::Rm { ctx: c, path, carrier: Some(_) } => (c, path[..path.len() - 1].to_vec()),
                    _ => continue,
                };
                if nid == rid || !is_prefix(rp, &npath) {
                    continue;
                }
                // T3: nested remove whose context shares an actor with the enclosing key removal
                if nctx.iter().any(|(a, n)| *n > 0 && cget(ctx, *a) > 0) {
                    t.insert("T3");
                }
                let _ = nctx;
            }
        }
    }
    if t7_fired {
        t.insert("T7");
    }
    if t2_fired {
        t.insert("T2");
    }
    t
}

/// Schedule-level trigger of R2, over knowledge sets only: a merge of states with knowledge X and Y where some key
/// removal rho is known to one side only, the other side still holds an update u1 that rho covers, and the same actor
/// has a later update u2 under the same key path that rho does not cover and that one of the sides knows. Map::merge
/// computes the "deleted dots" by per-actor clock subtraction, which cannot express "u1 dead, u2 alive".
pub fn r2_merge(all: &[(usize, Fact)], kx: Bits, ky: Bits) -> bool {
    let has = |k: Bits, id: usize| k >> id & 1 == 1;
    for (rid, r) in all {
        let Fact::Rm { ctx, path: rp, .. } = r else { continue };
        let (rx, ry) = (has(kx, *rid), has(ky, *rid));
        if rx == ry {
            continue;
        }
        // `lack` = the side that has not applied rho
        let lack = if rx { ky } else { kx };
        for (i1, u) in all {
            let Fact::Up { dot: d1, path: p1, .. } = u else { continue };
            if !is_prefix(rp, p1) || !cov(ctx, *d1) || !has(lack, *i1) {
                continue;
            }
            for (i2, u2) in all {
                if let Fact::Up { dot: d2, path: p2, .. } = u2 {
                    if is_prefix(rp, p2) && d2.0 == d1.0 && d2.1 > d1.1 && !cov(ctx, *d2) && (has(kx, *i2) || has(ky, *i2)) {
                        return true;
                    }
                }
            }
        }
    }
    false
}

/// Schedule-level trigger of R7, over knowledge sets only (never implementation state): at knowledge set K some
/// key path p is *absent* by the model (every update under p in K is covered by a removal of p or of a prefix in K)
/// while K contains a nested remove under p that still waits for an add d outside K which none of those removals
/// covers. The crate drops the entry together with the parked nested remove, so d comes back to life when it arrives.
pub fn r7_state(k_facts: &[(usize, Fact)], all: &[(usize, Fact)], in_k: &dyn Fn(usize) -> bool) -> bool {
    for (_, n) in k_facts {
        let (nctx, npath) = match n {
            Fact::Up { path, leaf: Leaf::SetRm(c, _), .. } if !path.is_empty() => (c, path.clone()),
            Fact::Rm { ctx: c, path, carrier: Some(_) } => (c, path[..path.len() - 1].to_vec()),
            _ => continue,
        };
        if nctx.is_empty() {
            continue;
        }
        // every enclosing key path p of the nested remove
        for plen in 1..=npath.len() {
            let p = &npath[..plen];
            let rms: Vec<&Clk> = k_facts.iter().filter_map(|(_, f)| match f { Fact::Rm { ctx, path, .. } if is_prefix(path, p) => Some(ctx), _ => None }).collect();
            if rms.is_empty() {
                continue;
            }
            let absent = k_facts.iter().all(|(_, f)| match f { Fact::Up { dot, path, .. } if is_prefix(p, path) => rms.iter().any(|c| cov(c, *dot)), _ => true });
            if !absent {
                continue;
            }
            let waiting = all.iter().any(|(id, f)| match f { Fact::Up { dot, path, .. } if is_prefix(p, path) && !in_k(*id) => cov(nctx, *dot) && !rms.iter().any(|c| cov(c, *dot)), _ => false });
            if waiting {
                return true;
            }
        }
    }
    false
}

/// which known finding (if any) can explain a violation of monitor kind `kind` on a history with taints `t`
pub fn explains(kind: &str, t: &BTreeSet<&'static str>, is_map: bool) -> Option<&'static str> {
    if !is_map {
        return None;
    }
    match kind {
        // exact per-event attribution happens inside the monitors (R4, R5, R6); whatever reaches
        // here from these monitors is unexplained
        "vop" | "vmerge" | "serde" | "shadow" | "ctx" | "coherence" | "seq" | "order" | "mono" | "harness" | "eqsound" | "panic" | "opdot" => return None,
        _ => {}
    }
    let structural = matches!(kind, "dupeq" | "staleeq" | "eq" | "residue");
    if t.contains("T1") && is_active("R1") {
        return Some("R1");
    }
    if t.contains("T2") && is_active("R2") {
        return Some("R2");
    }
    if t.contains("T7") && is_active("R7") {
        return Some("R7");
    }
    if structural && t.contains("T3") && is_active("R3") {
        return Some("R3");
    }
    None
}

use std::sync::RwLock;
static ACTIVE: RwLock<Option<BTreeSet<String>>> = RwLock::new(None);
/// findings whose pinned witness still fails on the current tree; only these may explain anything
pub fn set_active(ids: BTreeSet<String>) {
    *ACTIVE.write().unwrap() = Some(ids);
}
pub fn is_active(id: &str) -> bool {
    match &*ACTIVE.read().unwrap() {
        Some(s) => s.contains(id),
        None => false,
    }
}


/// Schedule-level part (m2) of R1's trigger: at knowledge set K some nested register write is known whose context
/// names a dot of another actor that K has not applied.
pub fn r1_state(k_facts: &[(usize, Fact)], all: &[(usize, Fact)], in_k: &dyn Fn(usize) -> bool) -> bool {
    for (_, f) in k_facts {
        if let Fact::Up { dot, leaf: Leaf::Put(c, _), path } = f {
            if path.is_empty() {
                continue;
            }
            for (a, n) in c {
                if *a == dot.0 || *n == 0 {
                    continue;
                }
                let missing = all.iter().any(|(id, g)| matches!(g, Fact::Up { dot: d2, .. } if *d2 == (*a, *n)) && !in_k(*id));
                if missing {
                    return true;
                }
            }
        }
    }
    false
}
