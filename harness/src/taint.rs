//! Known-finding attribution: trigger predicates over the *history* (flattened facts), never over
//! implementation state. See DESIGN.md §5 and §9.
use crate::spec::is_prefix;
use crate::sut::*;
use std::collections::BTreeSet;

/// `all` = facts of the whole history (needed to tell whether a context dot belongs to another key);
/// `t7_fired` = the schedule-level R7 trigger (see `r7_state`) held at some replica at some step
pub fn taints(facts: &[(usize, Fact)], _all: &[(usize, Fact)], has_merge: bool, t7_fired: bool) -> BTreeSet<&'static str> {
    let mut t = BTreeSet::new();
    for (_, f) in facts {
        match f {
            Fact::Up { leaf: Leaf::Add(ms), .. } if ms.len() > 1 => {
                t.insert("T6");
            }
            _ => {}
        }
    }
    // T1: a register write nested in a map whose context names an actor other than its author. The value is
    // identified by that whole clock (R1); dots of *other actors* in it - writes on other keys, or writes on the
    // same key that it superseded - are what a key removal or a value comparison later trips over. (A sharper
    // variant "covers a dot of another key path" was tried and rejected: R1 also manifests inside one key.)
    for (_, f) in facts {
        if let Fact::Up { dot, leaf: Leaf::Put(c, _), path } = f {
            if !path.is_empty() && c.keys().any(|a| *a != dot.0) {
                t.insert("T1");
            }
        }
    }
    for (rid, r) in facts {
        if let Fact::Rm { ctx, path: rp, .. } = r {
            // T2: the same actor has two updates under the removed key path, the removal covers the
            // earlier but not the later one, and the execution contains a merge
            if has_merge {
                for (_, u) in facts {
                    if let Fact::Up { dot: d1, path: p1, .. } = u {
                        if !is_prefix(rp, p1) || !cov(ctx, *d1) {
                            continue;
                        }
                        for (_, u2) in facts {
                            if let Fact::Up { dot: d2, path: p2, .. } = u2 {
                                if is_prefix(rp, p2) && d2.0 == d1.0 && d2.1 > d1.1 && !cov(ctx, *d2) {
                                    t.insert("T2");
                                }
                            }
                        }
                    }
                }
            }
            // nested removes under the removed key path
            for (nid, n) in facts {
                let (nctx, npath) = match n {
                    Fact::Up { path, leaf: Leaf::SetRm(c, _), .. } if !path.is_empty() => (c, path.clone()),
                    Fact::Rm { ctx: c, path, carrier: Some(_) } => (c, path[..path.len() - 1].to_vec()),
                    _ => continue,
                };
                if nid == rid || !is_prefix(rp, &npath) {
                    continue;
                }
                // T3: nested remove whose context shares an actor with the enclosing key removal
                if nctx.iter().any(|(a, n)| *n > 0 && cget(ctx, *a) > 0) {
                    t.insert("T3");
                }
                let _ = nctx;
            }
        }
    }
    if t7_fired {
        t.insert("T7");
    }
    t
}

/// Schedule-level trigger of R7, over knowledge sets only (never implementation state): at knowledge set K some
/// key path p is *absent* by the model (every update under p in K is covered by a removal of p or of a prefix in K)
/// while K contains a nested remove under p that still waits for an add d outside K which none of those removals
/// covers. The crate drops the entry together with the parked nested remove, so d comes back to life when it arrives.
pub fn r7_state(k_facts: &[(usize, Fact)], all: &[(usize, Fact)], in_k: &dyn Fn(usize) -> bool) -> bool {
    for (_, n) in k_facts {
        let (nctx, npath) = match n {
            Fact::Up { path, leaf: Leaf::SetRm(c, _), .. } if !path.is_empty() => (c, path.clone()),
            Fact::Rm { ctx: c, path, carrier: Some(_) } => (c, path[..path.len() - 1].to_vec()),
            _ => continue,
        };
        if nctx.is_empty() {
            continue;
        }
        // every enclosing key path p of the nested remove
        for plen in 1..=npath.len() {
            let p = &npath[..plen];
            let rms: Vec<&Clk> = k_facts.iter().filter_map(|(_, f)| match f { Fact::Rm { ctx, path, .. } if is_prefix(path, p) => Some(ctx), _ => None }).collect();
            if rms.is_empty() {
                continue;
            }
            let absent = k_facts.iter().all(|(_, f)| match f { Fact::Up { dot, path, .. } if is_prefix(p, path) => rms.iter().any(|c| cov(c, *dot)), _ => true });
            if !absent {
                continue;
            }
            let waiting = all.iter().any(|(id, f)| match f { Fact::Up { dot, path, .. } if is_prefix(p, path) && !in_k(*id) => cov(nctx, *dot) && !rms.iter().any(|c| cov(c, *dot)), _ => false });
            if waiting {
                return true;
            }
        }
    }
    false
}

/// which known finding (if any) can explain a violation of monitor kind `kind` on a history with taints `t`
pub fn explains(kind: &str, t: &BTreeSet<&'static str>, is_map: bool) -> Option<&'static str> {
    if !is_map {
        return None;
    }
    match kind {
        // exact per-event attribution happens inside the monitors (R4, R5, R6); whatever reaches
        // here from these monitors is unexplained
        "vop" | "vmerge" | "serde" | "shadow" | "ctx" | "coherence" | "seq" | "order" | "mono" | "harness" | "eqsound" | "panic" | "opdot" => return None,
        _ => {}
    }
    let structural = matches!(kind, "dupeq" | "staleeq" | "eq" | "residue");
    if t.contains("T1") && is_active("R1") {
        return Some("R1");
    }
    if t.contains("T2") && is_active("R2") {
        return Some("R2");
    }
    if t.contains("T7") && is_active("R7") {
        return Some("R7");
    }
    if structural && t.contains("T3") && is_active("R3") {
        return Some("R3");
    }
    None
}

use std::sync::RwLock;
static ACTIVE: RwLock<Option<BTreeSet<String>>> = RwLock::new(None);
/// findings whose pinned witness still fails on the current tree; only these may explain anything
pub fn set_active(ids: BTreeSet<String>) {
    *ACTIVE.write().unwrap() = Some(ids);
}
pub fn is_active(id: &str) -> bool {
    match &*ACTIVE.read().unwrap() {
        Some(s) => s.contains(id),
        None => false,
    }
}
