//! crdtmon: runtime monitors for the `crdts` crate (see /verif/DESIGN.md).
mod algebra;
mod campaign;
mod checks;
mod dump;
mod known;
mod rng;
mod spec;
mod sut;
mod taint;
mod types;
mod world;

use checks::{run_property, RunCtx};
use serde_json::json;
use std::time::Instant;

fn arg(args: &[String], name: &str) -> Option<String> {
    args.iter().position(|a| a == name).and_then(|i| args.get(i + 1).cloned())
}

fn main() {
    // a failure of the harness itself is inconclusive (exit 2), never a violation
    if let Err(_) = std::panic::catch_unwind(real_main) {
        println!("INCONCLUSIVE harness failure (see stderr)");
        std::process::exit(2);
    }
}

fn real_main() {
    let args: Vec<String> = std::env::args().collect();
    // panics inside the crate under test are caught and reported by the engine; keep stderr quiet
    std::panic::set_hook(Box::new(|info| {
        if !campaign::IN_ENGINE.with(|f| f.get()) {
            eprintln!("harness panic: {info}");
        }
    }));
    let verif = arg(&args, "--verif-dir").unwrap_or_else(|| "/verif".to_string());
    match args.get(1).map(|s| s.as_str()) {
        Some("check") => {
            let prop = args.get(2).expect("property id").clone();
            let tier = arg(&args, "--tier").or_else(|| std::env::var("VERIF_TIER").ok()).unwrap_or_else(|| "quick".into());
            let seed: u64 = arg(&args, "--seed").or_else(|| std::env::var("VERIF_SEED").ok()).and_then(|s| s.parse().ok()).unwrap_or(1);
            let threads: usize = arg(&args, "--threads").and_then(|s| s.parse().ok()).unwrap_or_else(|| std::thread::available_parallelism().map(|n| n.get()).unwrap_or(8).min(16));
            let thorough = tier == "thorough";
            let scale: f64 = arg(&args, "--scale").and_then(|s| s.parse().ok()).unwrap_or(if thorough { 12.0 } else { 1.0 });
            if thorough {
                sut::NK.store(3, std::sync::atomic::Ordering::Relaxed);
            }
            let t0 = Instant::now();
            let known = known::Known::load(&verif);
            taint::set_active(known.alive());
            let cx = RunCtx { prop: prop.clone(), tier: tier.clone(), seed, threads, scale, thorough };
            let mut v = run_property(&cx, &known);
            // a *fixed* finding whose pinned witness fails again is a violation (the defect returned)
            for (id, w, fails) in &known.witnesses {
                let e = known.entries.iter().find(|e| &e.id == id).unwrap();
                if e.status == "fixed" && *fails && w.property == prop {
                    v.violations.push(campaign::Finding { kind: w.kind.clone(), sut: w.sut.clone(), finding: None, detail: format!("fixed finding {id} fails again: {}", w.what), taints: vec![], seed, cfg: serde_json::to_value(w.cfg).unwrap(), script: w.script.clone(), log: vec![], shrunk: true });
                }
            }
            let wall = t0.elapsed().as_secs_f64();
            if let Ok(dir) = std::env::var("CRDTMON_DUMP_KNOWN") {
                std::fs::create_dir_all(&dir).ok();
                for (i, f) in v.known_samples.iter().enumerate() {
                    std::fs::write(format!("{dir}/{prop}-{}-{}-{i}.json", f.finding.clone().unwrap_or_default(), f.sut), serde_json::to_string_pretty(&json!({"property": prop, "finding": f})).unwrap()).ok();
                }
            }
            let mut cov = v.evidence.clone();
            cov["known_findings_alive"] = json!(known.alive());
            cov["known_finding_lines"] = json!(v.known_lines.iter().filter(|l| l.starts_with("KNOWN-FINDING")).collect::<Vec<_>>());
            if let Some(why) = &v.inconclusive {
                cov["inconclusive"] = json!(why);
            }
            let ev = json!({
                "property_id": prop, "tier": if thorough { "thorough" } else { "quick" }, "seed": seed, "level": "exploration",
                "coverage": cov,
                "assumptions": [
                    "reference models (harness/src/spec.rs) and the trigger predicates of known findings (harness/src/taint.rs) are correct",
                    "replicated-system histories are limited to <= 11 replicas, <= 12 distinct keys/members, <= 3 nesting levels, <= 128 ops (lists up to ~100 elements; the C13 long-sequence workload reaches ~350), dot counters up to ~2^40; nothing outside was observed",
                    "the serde Serialize impls expose the complete private state (used for dumps)"
                ],
                "wall_s": wall, "violations": v.violations.len(),
            });
            std::fs::create_dir_all(format!("{verif}/evidence")).ok();
            std::fs::write(format!("{verif}/evidence/{prop}.json"), serde_json::to_string_pretty(&ev).unwrap()).expect("write evidence");
            for l in &v.known_lines {
                println!("{l}");
            }
            println!("# {prop} {tier} seed={seed}: evaluations={} distinct_nontrivial={} violations={} wall={wall:.1}s", cov["evaluations"], cov["distinct_nontrivial"], v.violations.len());
            if !v.violations.is_empty() {
                std::fs::create_dir_all(format!("{verif}/replays")).ok();
                for (i, f) in v.violations.iter().enumerate().take(10) {
                    let path = format!("{verif}/replays/{prop}-{seed}-{i}.json");
                    std::fs::write(&path, serde_json::to_string_pretty(&json!({"property": prop, "finding": f})).unwrap()).ok();
                    println!("VIOLATION property={prop} replay={path}");
                    println!("#   [{}] {} :: {}", f.sut, f.kind, f.detail.replace('\n', "\n#   "));
                    for l in f.log.iter().take(30) {
                        println!("#     {l}");
                    }
                }
                std::process::exit(1);
            }
            if let Some(why) = v.inconclusive {
                println!("INCONCLUSIVE property={prop} {why}");
                std::process::exit(2);
            }
        }
        Some("replay") => {
            let path = args.get(2).expect("replay file");
            let known = known::Known::load(&verif);
            taint::set_active(known.alive());
            let txt = std::fs::read_to_string(path).expect("read replay file");
            let v: serde_json::Value = serde_json::from_str(&txt).unwrap();
            let f = if v.get("finding").is_some() { &v["finding"] } else { &v };
            let prop_of = v["property"].as_str().unwrap_or("?").to_string();
            let sut = f["sut"].as_str().unwrap().to_string();
            let script: Vec<world::Act> = serde_json::from_value(f["script"].clone()).unwrap();
            if script.is_empty() {
                println!("E2 finding (input-space): re-run the check; recorded detail:\n{}", f["detail"].as_str().unwrap_or(""));
                return;
            }
            let cfg: world::Cfg = serde_json::from_value(f["cfg"].clone()).expect("cfg");
            let (viol, log) = known::replay_script(&sut, &script, cfg);
            for l in log {
                println!("{l}");
            }
            match viol {
                Some(v) => {
                    if let Some(why) = &v.2 {
                        println!("KNOWN-FINDING: property={} {why}\n[{}] {}", prop_of, v.0, v.1);
                    } else {
                        println!("VIOLATION property={} replay={path}\n[{}] {}", prop_of, v.0, v.1);
                        std::process::exit(1);
                    }
                }
                None => println!("no violation on the current tree"),
            }
        }
        Some("jobs") => checks::print_jobs(),
        Some("smoke") => {
            let n: u64 = args.get(2).and_then(|s| s.parse().ok()).unwrap_or(2);
            let steps: usize = args.get(3).and_then(|s| s.parse().ok()).unwrap_or(10);
            let a = checks::smoke(n, steps);
            println!("smoke finished: {a} actions executed");
        }
        Some("mkwitness") => {
            checks::mkwitness(&args[2], 7, &verif);
        }
        Some("pin") => {
            // dev helper: turn a replay/known-sample file into a pinned witness file
            known::pin(&args[2..], &verif);
        }
        _ => {
            eprintln!("usage: crdtmon check <Cxx> [--tier quick|thorough] [--seed N] | replay <file>");
            std::process::exit(2);
        }
    }
}
