//! splitmix64; every random choice of a run derives from VERIF_SEED.
#[derive(Clone, Debug)]
pub struct Rng(pub u64);
impl Rng {
    pub fn new(seed: u64) -> Self {
        let mut r = Rng(seed ^ 0x5DEECE66D);
        r.next();
        r
    }
    pub fn next(&mut self) -> u64 {
        self.0 = self.0.wrapping_add(0x9E3779B97F4A7C15);
        let mut z = self.0;
        z = (z ^ (z >> 30)).wrapping_mul(0xBF58476D1CE4E5B9);
        z = (z ^ (z >> 27)).wrapping_mul(0x94D049BB133111EB);
        z ^ (z >> 31)
    }
    pub fn below(&mut self, n: usize) -> usize {
        if n == 0 {
            0
        } else {
            (self.next() % (n as u64)) as usize
        }
    }
    pub fn chance(&mut self, num: usize, den: usize) -> bool {
        self.below(den) < num
    }
    pub fn pick<'a, T>(&mut self, v: &'a [T]) -> &'a T {
        &v[self.below(v.len())]
    }
    pub fn fork(&mut self) -> Rng {
        Rng::new(self.next())
    }
}
pub fn mix(a: u64, b: u64) -> u64 {
    let mut r = Rng(a.wrapping_mul(0x9E3779B97F4A7C15) ^ b.wrapping_mul(0xD1B54A32D192ED03));
    r.next()
}
