//! Engine E2: input-space workloads for pure functions and single-state operations
//! (C10 VClock algebra, C14 identifiers, C18 reset_remove). Oracles observe the real functions.
use crate::campaign::{gen_history, Finding};
use crate::checks::{RunCtx, Verdict};
use crate::dump::{dump_norm as dump, norm, Dump};
use crate::known::Known;
use crate::rng::{mix, Rng};
use crate::sut::*;
use crate::types::causal::*;
use crate::types::simple::*;
use crate::world::{Cfg, pending_count};
use crdts::{CmRDT, CvRDT, Dot, Identifier, ResetRemove, VClock};
use serde_json::json;
use std::cmp::Ordering;
use std::collections::{BTreeMap, BTreeSet, HashSet};
use std::time::Instant;

fn finding(kind: &str, sut: &str, detail: String, seed: u64) -> Finding {
    Finding { kind: kind.into(), sut: sut.into(), finding: None, detail, taints: vec![], seed, cfg: serde_json::json!("E2"), script: vec![], log: vec![], shrunk: false }
}

pub fn run(cx: &RunCtx, known: &Known) -> Verdict {
    match cx.prop.as_str() {
        "C10" => c10(cx),
        "C14" => c14(cx),
        "C18" => c18(cx, known),
        _ => unreachable!(),
    }
}

// =====================================================================================  C10
type M = BTreeMap<u8, u64>;
fn g(m: &M, a: u8) -> u64 {
    *m.get(&a).unwrap_or(&0)
}

/// every check of C10 on one pair (x, y); returns a description of the first disagreement
fn c10_pair(x: &M, y: &M, actors: &[u8]) -> Option<String> {
    let (vx, vy) = (mkvc(x), mkvc(y));
    let le = actors.iter().all(|a| g(x, *a) <= g(y, *a));
    let ge = actors.iter().all(|a| g(x, *a) >= g(y, *a));
    let exp = match (le, ge) {
        (true, true) => Some(Ordering::Equal),
        (true, false) => Some(Ordering::Less),
        (false, true) => Some(Ordering::Greater),
        _ => None,
    };
    if vx.partial_cmp(&vy) != exp {
        return Some(format!("partial_cmp({x:?},{y:?}) = {:?}, pointwise order says {exp:?}", vx.partial_cmp(&vy)));
    }
    if vx.concurrent(&vy) != exp.is_none() {
        return Some(format!("concurrent({x:?},{y:?}) = {}", vx.concurrent(&vy)));
    }
    if (vx == vy) != (exp == Some(Ordering::Equal)) {
        return Some(format!("== disagrees with pointwise equality on {x:?},{y:?}"));
    }
    let nz = |m: M| -> M { m.into_iter().filter(|(_, v)| *v > 0).collect() };
    let mut m = vx.clone();
    m.merge(vy.clone());
    let lub: M = nz(actors.iter().map(|a| (*a, g(x, *a).max(g(y, *a)))).collect());
    if vc(&m) != lub {
        return Some(format!("merge({x:?},{y:?}) = {:?}, least upper bound is {lub:?}", vc(&m)));
    }
    let mut gl = vx.clone();
    gl.glb(&vy);
    let glb: M = nz(actors.iter().map(|a| (*a, g(x, *a).min(g(y, *a)))).collect());
    if vc(&gl) != glb {
        return Some(format!("glb({x:?},{y:?}) = {:?}, greatest lower bound is {glb:?}", vc(&gl)));
    }
    let mut rr = vx.clone();
    rr.reset_remove(&vy);
    let exp_rr: M = nz(actors.iter().map(|a| (*a, if g(x, *a) > g(y, *a) { g(x, *a) } else { 0 })).collect());
    if vc(&rr) != exp_rr {
        return Some(format!("reset_remove({x:?},{y:?}) = {:?}, expected {exp_rr:?}", vc(&rr)));
    }
    if vc(&vx.clone_without(&vy)) != exp_rr {
        return Some(format!("clone_without({x:?},{y:?}) differs from reset_remove"));
    }
    let inter = VClock::intersection(&vx, &vy);
    let exp_i: M = nz(actors.iter().map(|a| (*a, if g(x, *a) == g(y, *a) { g(x, *a) } else { 0 })).collect());
    if vc(&inter) != exp_i {
        return Some(format!("intersection({x:?},{y:?}) = {:?}, expected {exp_i:?}", vc(&inter)));
    }
    for r in [&m, &gl, &rr, &inter] {
        if r.dots.values().any(|c| *c == 0) {
            return Some(format!("a zero counter was stored by an operation on {x:?},{y:?}"));
        }
    }
    None
}

fn c10_dot(x: &M, a: u8, c: u64) -> Option<String> {
    let vx = mkvc(x);
    let d = Dot::new(a, c);
    let have = g(x, a);
    let res = vx.validate_op(&d);
    if res.is_ok() != (c <= have + 1) {
        return Some(format!("validate_op({x:?}, ({a},{c})) = {res:?}"));
    }
    if let Err(e) = &res {
        if e.actor != a || e.counter_range != (have + 1..c) {
            return Some(format!("validate_op({x:?}, ({a},{c})) reports range {e:?}, expected {}..{c}", have + 1));
        }
    }
    let mut v2 = vx.clone();
    v2.apply(d);
    if v2.get(&a) != have.max(c) || v2.dots.values().any(|c| *c == 0) || !(v2 >= vx) {
        return Some(format!("apply({x:?}, ({a},{c})) = {:?}", vc(&v2)));
    }
    for b in 0..4u8 {
        if b != a && v2.get(&b) != g(x, b) {
            return Some(format!("apply({x:?}, ({a},{c})) changed actor {b}"));
        }
    }
    // constructors must not store zero counters either and must agree with apply
    let from_dot: VClock<u8> = Dot::new(a, c).into();
    let exp_fd: M = if c > 0 { [(a, c)].into_iter().collect() } else { M::new() };
    if vc(&from_dot) != exp_fd {
        return Some(format!("VClock::from(Dot({a},{c})) = {:?}", vc(&from_dot)));
    }
    let mut dots: Vec<Dot<u8>> = x.iter().map(|(aa, cc)| Dot::new(*aa, *cc)).collect();
    dots.push(Dot::new(a, c));
    dots.push(Dot::new(a, 0));
    let fi: VClock<u8> = dots.iter().cloned().collect();
    if vc(&fi) != vc(&v2) {
        return Some(format!("from_iter({dots:?}) = {:?}, expected {:?}", vc(&fi), vc(&v2)));
    }
    let back: VClock<u8> = v2.clone().into_iter().collect();
    if back != v2 {
        return Some(format!("into_iter/from_iter round trip changed {:?}", vc(&v2)));
    }
    let i = vx.inc(a);
    if i.actor != a || i.counter != have + 1 {
        return Some(format!("inc({x:?}, {a}) = {i:?}"));
    }
    let dd = vx.dot(a);
    if dd.counter != have || vx.get(&a) != have {
        return Some(format!("dot/get({x:?}, {a}) = {dd:?}"));
    }
    None
}

fn c10(cx: &RunCtx) -> Verdict {
    let mut viol: Vec<Finding> = vec![];
    let mut evals = 0u64;
    let mut distinct: HashSet<u64> = HashSet::new();
    let mut samples = vec![];
    // systematic: 3 actors x counters 0..3
    let mut clocks: Vec<M> = vec![];
    for a in 0..4u64 {
        for b in 0..4u64 {
            for c in 0..4u64 {
                let mut m = M::new();
                for (act, v) in [(0u8, a), (1, b), (2, c)] {
                    if v > 0 {
                        m.insert(act, v);
                    }
                }
                clocks.push(m);
            }
        }
    }
    let actors = [0u8, 1, 2];
    for (i, x) in clocks.iter().enumerate() {
        for (j, y) in clocks.iter().enumerate() {
            evals += 1;
            if i != j {
                distinct.insert(mix(i as u64, j as u64));
            }
            if let Some(e) = c10_pair(x, y, &actors) {
                if viol.len() < 5 {
                    viol.push(finding("vclock", "VC", e, cx.seed));
                }
            }
        }
    }
    // order axioms on all triples of the systematic domain
    let cmp: Vec<Vec<Option<Ordering>>> = clocks.iter().map(|x| clocks.iter().map(|y| mkvc(x).partial_cmp(&mkvc(y))).collect()).collect();
    let n = clocks.len();
    let mut triples = 0u64;
    for i in 0..n {
        if cmp[i][i] != Some(Ordering::Equal) {
            viol.push(finding("vclock", "VC", format!("not reflexive on {:?}", clocks[i]), cx.seed));
        }
        for j in 0..n {
            if cmp[i][j].map(|o| o.reverse()) != cmp[j][i] {
                viol.push(finding("vclock", "VC", format!("comparison not antisymmetric on {:?},{:?}", clocks[i], clocks[j]), cx.seed));
            }
            if cmp[i][j] == Some(Ordering::Equal) && i != j {
                viol.push(finding("vclock", "VC", format!("distinct clocks compare Equal {:?},{:?}", clocks[i], clocks[j]), cx.seed));
            }
            let le_ij = matches!(cmp[i][j], Some(Ordering::Less) | Some(Ordering::Equal));
            if !le_ij {
                continue;
            }
            for k in 0..n {
                triples += 1;
                let le_jk = matches!(cmp[j][k], Some(Ordering::Less) | Some(Ordering::Equal));
                if le_jk && !matches!(cmp[i][k], Some(Ordering::Less) | Some(Ordering::Equal)) {
                    if viol.len() < 5 {
                        viol.push(finding("vclock", "VC", format!("not transitive on {:?} <= {:?} <= {:?}", clocks[i], clocks[j], clocks[k]), cx.seed));
                    }
                }
            }
        }
        if viol.len() > 20 {
            break;
        }
    }
    evals += triples;
    for x in &clocks {
        for a in 0..4u8 {
            for c in 0..6u64 {
                evals += 1;
                if let Some(e) = c10_dot(x, a, c) {
                    if viol.len() < 5 {
                        viol.push(finding("vclock", "VC", e, cx.seed));
                    }
                }
            }
        }
    }
    // Dot partial order: comparable iff same actor
    for a in 0..3u8 {
        for b in 0..3u8 {
            for c in 0..4u64 {
                for d in 0..4u64 {
                    evals += 1;
                    let r = Dot::new(a, c).partial_cmp(&Dot::new(b, d));
                    let exp = if a == b { c.partial_cmp(&d) } else { None };
                    if r != exp {
                        viol.push(finding("vclock", "VC", format!("Dot({a},{c}).partial_cmp(Dot({b},{d})) = {r:?}"), cx.seed));
                    }
                }
            }
        }
    }
    // random: up to 12 actors, counters up to 2^63, near-equal pairs
    let nrand = if cx.thorough { 3_000_000 } else { 600_000 };
    let nrand = (nrand as f64 * cx.scale) as u64;
    let per = nrand / cx.threads as u64 + 1;
    let parts: Vec<(u64, Vec<Finding>, HashSet<u64>, Vec<serde_json::Value>)> = std::thread::scope(|sc| {
        let hs: Vec<_> = (0..cx.threads as u64)
            .map(|t| {
                let seed = cx.seed;
                sc.spawn(move || {
                    let mut rng = Rng::new(mix(seed, 1000 + t));
                    let mut v = vec![];
                    let mut dist = HashSet::new();
                    let mut smp = vec![];
                    let all: Vec<u8> = (0..12).collect();
                    for it in 0..per {
                        let big = rng.chance(1, 4);
                        let mut mk = |rng: &mut Rng| -> M {
                            let mut m = M::new();
                            // every fourth pair over 12 actors (wide clocks), the rest over 8
                            let na = if it % 4 == 0 { 12u8 } else { 8 };
                            for a in 0..na {
                                if rng.chance(1, 2) {
                                    let c = if big { rng.next() >> 1 } else { rng.below(5) as u64 };
                                    if c > 0 {
                                        m.insert(a, c);
                                    }
                                }
                            }
                            m
                        };
                        let x = mk(&mut rng);
                        let mut y = if rng.chance(1, 3) { x.clone() } else { mk(&mut rng) };
                        if rng.chance(1, 2) {
                            // perturb one actor so that x,y are nearly equal / just ordered
                            let a = rng.below(12) as u8;
                            let c = g(&y, a);
                            let nc = if rng.chance(1, 2) { c.saturating_add(1) } else { c.saturating_sub(1) };
                            if nc == 0 {
                                y.remove(&a);
                            } else {
                                y.insert(a, nc);
                            }
                        }
                        if x != y {
                            dist.insert(mix(mix(1, x.iter().fold(7u64, |h, (a, c)| mix(h, mix(*a as u64, *c)))), y.iter().fold(9u64, |h, (a, c)| mix(h, mix(*a as u64, *c)))));
                        }
                        if it < 2 && t == 0 {
                            smp.push(json!({"x": format!("{x:?}"), "y": format!("{y:?}")}));
                        }
                        if let Some(e) = c10_pair(&x, &y, &all) {
                            if v.len() < 3 {
                                v.push(finding("vclock", "VC", e, seed));
                            }
                        }
                        let a = rng.below(12) as u8;
                        let c = if rng.chance(1, 2) { g(&x, a).saturating_add(rng.below(3) as u64) } else { rng.below(6) as u64 };
                        if c < u64::MAX - 2 {
                            if let Some(e) = c10_dot(&x, a, c) {
                                if v.len() < 3 {
                                    v.push(finding("vclock", "VC", e, seed));
                                }
                            }
                        }
                    }
                    (per * 2, v, dist, smp)
                })
            })
            .collect();
        hs.into_iter().map(|h| h.join().unwrap()).collect()
    });
    let mut random_distinct = 0u64;
    for (e, v, d, s) in parts {
        evals += e;
        viol.extend(v);
        random_distinct += d.len() as u64;
        samples.extend(s);
    }
    // harvested: clocks that occur in E1 runs (add clocks, witnesses, remove contexts)
    let mut harvested: BTreeSet<M> = BTreeSet::new();
    for h in 0..(200.0 * cx.scale) as u64 {
        let mut c = Cfg::base(3, 20, Delivery::Fifo, 0);
        c.merges = true;
        c.policy = 255;
        let o = gen_history::<MO>(mix(cx.seed, 5000 + h), c, None);
        for r in &o.world.reps {
            collect_clocks(&dump(r), &mut harvested);
        }
    }
    let hv: Vec<M> = harvested.into_iter().collect();
    let mut hp = 0u64;
    for x in hv.iter().take(400) {
        for y in hv.iter().take(400) {
            hp += 1;
            let acts: Vec<u8> = x.keys().chain(y.keys()).cloned().collect::<BTreeSet<u8>>().into_iter().collect();
            if let Some(e) = c10_pair(x, y, &acts) {
                if viol.len() < 5 {
                    viol.push(finding("vclock", "VC", e, cx.seed));
                }
            }
        }
    }
    evals += hp;
    samples.push(json!({"systematic_clock": format!("{:?}", clocks[27]), "harvested_clock": hv.get(1).map(|c| format!("{c:?}"))}));
    let ev = json!({
        "evaluations": evals,
        "distinct_nontrivial": distinct.len() as u64 + random_distinct,
        "rule": "distinct ordered pairs of *different* clocks on which every C10 operation was compared with the pointwise model (systematic 64x64 domain + random pairs up to 12 actors and counters up to 2^63, deduplicated per worker by hash)",
        "samples": samples,
        "systematic_pairs": 64 * 64, "systematic_triples": triples, "random_pairs": nrand, "harvested_clocks": hv.len(), "harvested_pairs": hp,
        "exhaustive": true,
        "exhaustive_scope": "only the bounded sub-domain: all pairs and order-axiom triples of the 64 clocks over 3 actors x counters 0..3, all dots over 4 actors x 0..5",
    });
    let inconclusive = if evals < 10_000 { Some("vacuous".into()) } else { None };
    Verdict { violations: viol, known_lines: vec![], inconclusive, evidence: ev, known_samples: vec![] }
}

fn collect_clocks(d: &Dump, out: &mut BTreeSet<M>) {
    match d {
        Dump::Struct(_, fs) => {
            for (k, v) in fs {
                if *k == "clock" {
                    out.insert(v.as_clk());
                }
                if *k == "deferred" {
                    for (c, _) in v.as_map() {
                        out.insert(c.as_clk());
                    }
                }
                if *k == "entries" {
                    for (_, e) in v.as_map() {
                        if matches!(e, Dump::Map(_)) {
                            out.insert(e.as_clk());
                        }
                    }
                }
                collect_clocks(v, out);
            }
        }
        Dump::Seq(v) => v.iter().for_each(|x| collect_clocks(x, out)),
        Dump::Map(v) => v.iter().for_each(|(_, x)| collect_clocks(x, out)),
        _ => {}
    }
}

// =====================================================================================  C14
fn rat(n: i64, d: i64) -> serde_json::Value {
    let bi = |x: i64| -> serde_json::Value {
        if x == 0 {
            json!([0, []])
        } else {
            json!([if x < 0 { -1 } else { 1 }, [x.unsigned_abs()]])
        }
    };
    json!([bi(n), bi(d)])
}
pub fn mk_id(path: &[((i64, i64), u8)]) -> Identifier<u8> {
    let v: Vec<serde_json::Value> = path.iter().map(|((n, d), m)| json!([rat(*n, *d), m])).collect();
    serde_json::from_value(serde_json::Value::Array(v)).expect("identifier through serde")
}

fn check_between(a: &Identifier<u8>, b: &Identifier<u8>, m: u8) -> Option<String> {
    // precondition: a < b
    let mid = Identifier::between(Some(a), Some(b), m);
    if !(a < &mid && &mid < b) {
        return Some(format!("between({a}, {b}, {m}) = {mid} is not strictly inside"));
    }
    if *mid.value() != m {
        return Some(format!("between({a}, {b}, {m}) = {mid} does not carry the marker"));
    }
    // argument order must not matter
    let mid2 = Identifier::between(Some(b), Some(a), m);
    if mid2 != mid {
        return Some(format!("between({b}, {a}, {m}) = {mid2} differs from between(a,b) = {mid}"));
    }
    None
}
fn check_one_sided(a: &Identifier<u8>, m: u8) -> Option<String> {
    let hi = Identifier::between(Some(a), None, m);
    let lo = Identifier::between(None, Some(a), m);
    if !(a < &hi) {
        return Some(format!("between({a}, None, {m}) = {hi} is not beyond the bound"));
    }
    if !(&lo < a) {
        return Some(format!("between(None, {a}, {m}) = {lo} is not below the bound"));
    }
    None
}
fn check_order3(a: &Identifier<u8>, b: &Identifier<u8>, c: &Identifier<u8>) -> Option<String> {
    let ab = a.cmp(b);
    if ab.reverse() != b.cmp(a) {
        return Some(format!("cmp not antisymmetric on {a}, {b}"));
    }
    if (ab == Ordering::Equal) != (a == b) {
        return Some(format!("cmp == Equal disagrees with == on {a}, {b}"));
    }
    if a.partial_cmp(b) != Some(ab) {
        return Some(format!("partial_cmp disagrees with cmp on {a}, {b}"));
    }
    if a <= b && b <= c && !(a <= c) {
        return Some(format!("cmp not transitive on {a} <= {b} <= {c}"));
    }
    if a < b && b < c && !(a < c) {
        return Some(format!("cmp not transitive (strict) on {a} < {b} < {c}"));
    }
    None
}

fn c14(cx: &RunCtx) -> Verdict {
    let rats = [(-1i64, 1i64), (0, 1), (1, 2), (1, 1)];
    let marks = [0u8, 1, 2];
    let mut nodes = vec![];
    for r in rats {
        for m in marks {
            nodes.push((r, m));
        }
    }
    let mut ids: Vec<Identifier<u8>> = vec![];
    for a in &nodes {
        ids.push(mk_id(&[*a]));
        for b in &nodes {
            ids.push(mk_id(&[*a, *b]));
            for c in &nodes {
                ids.push(mk_id(&[*a, *b, *c]));
            }
        }
    }
    let stride = if cx.thorough { 1 } else { 3 };
    let offset = (cx.seed % stride as u64) as usize;
    let nids = ids.len();
    let ids = &ids;
    let threads = cx.threads;
    let seed = cx.seed;
    let nrand = ((if cx.thorough { 4_000_000.0 } else { 500_000.0 }) * cx.scale) as u64;
    let parts: Vec<(u64, u64, Vec<Finding>, Vec<serde_json::Value>)> = std::thread::scope(|sc| {
        let hs: Vec<_> = (0..threads)
            .map(|t| {
                sc.spawn(move || {
                    let mut evals = 0u64;
                    let mut distinct = 0u64;
                    let mut v: Vec<Finding> = vec![];
                    let mut smp = vec![];
                    let mut push = |e: Option<String>, v: &mut Vec<Finding>| {
                        if let Some(e) = e {
                            if v.len() < 3 {
                                v.push(finding("identifier", "ID", e, seed));
                            }
                        }
                    };
                    // systematic pairs (sample 1/stride of the left operands in quick)
                    let mut i = offset + t * stride;
                    while i < nids {
                        let a = &ids[i];
                        for b in ids.iter() {
                            if a < b {
                                distinct += 1;
                                for m in [0u8, 1, 2, 3] {
                                    evals += 1;
                                    push(check_between(a, b, m), &mut v);
                                }
                            } else if a == b {
                                evals += 1;
                                if Identifier::between(Some(a), Some(b), 1) != *a && false {
                                    // equal bounds: no identifier exists strictly between; behaviour unspecified
                                }
                            }
                        }
                        for m in [0u8, 1, 2, 3] {
                            evals += 1;
                            push(check_one_sided(a, m), &mut v);
                        }
                        i += stride * threads;
                    }
                    // order axioms on random triples of the systematic domain
                    let mut rng = Rng::new(mix(seed, 77 + t as u64));
                    for _ in 0..(nrand / threads as u64) {
                        evals += 1;
                        let (a, b, c) = (&ids[rng.below(nids)], &ids[rng.below(nids)], &ids[rng.below(nids)]);
                        push(check_order3(a, b, c), &mut v);
                    }
                    // random deep paths: equal-rational siblings, prefix-related pairs, between-chains
                    for it in 0..(nrand / threads as u64 / 4) {
                        let depth = 1 + rng.below(6);
                        let mut p: Vec<((i64, i64), u8)> = (0..depth).map(|_| ((rng.below(7) as i64 - 3, 1 + rng.below(3) as i64), rng.below(4) as u8)).collect();
                        let a = mk_id(&p);
                        // derive b: prefix, extension, sibling with same rational, or unrelated
                        match rng.below(5) {
                            0 if p.len() > 1 => {
                                p.pop();
                            }
                            1 => p.push(((rng.below(5) as i64 - 2, 1), rng.below(4) as u8)),
                            2 => {
                                let l = p.len() - 1;
                                p[l].1 = (p[l].1 + 1 + rng.below(2) as u8) % 5;
                            }
                            3 => {
                                let k = rng.below(p.len());
                                p[k].1 = (p[k].1 + 1) % 5;
                            }
                            _ => p = (0..1 + rng.below(4)).map(|_| ((rng.below(7) as i64 - 3, 1 + rng.below(3) as i64), rng.below(4) as u8)).collect(),
                        }
                        let b = mk_id(&p);
                        let c = mk_id(&[((rng.below(5) as i64 - 2, 1 + rng.below(2) as i64), rng.below(4) as u8)]);
                        evals += 1;
                        push(check_order3(&a, &b, &c), &mut v);
                        let (lo, hi) = if a < b { (a.clone(), b.clone()) } else { (b.clone(), a.clone()) };
                        if lo < hi {
                            distinct += 1;
                            // repeated bisection: the gap never closes (density), identifiers stay unique
                            let (mut l, mut h) = (lo, hi);
                            for step in 0..6 {
                                let m = rng.below(6) as u8;
                                evals += 1;
                                if let Some(e) = check_between(&l, &h, m) {
                                    push(Some(e), &mut v);
                                    break;
                                }
                                let mid = Identifier::between(Some(&l), Some(&h), m);
                                if it < 1 && t == 0 && step == 0 {
                                    smp.push(json!({"low": l.to_string(), "high": h.to_string(), "marker": m, "between": mid.to_string()}));
                                }
                                if rng.chance(1, 2) {
                                    l = mid
                                } else {
                                    h = mid
                                }
                            }
                        }
                        for m in 0..2u8 {
                            evals += 1;
                            push(check_one_sided(&a, m), &mut v);
                        }
                    }
                    (evals, distinct, v, smp)
                })
            })
            .collect();
        hs.into_iter().map(|h| h.join().unwrap()).collect()
    });
    let mut evals = 0;
    let mut distinct = 0;
    let mut viol = vec![];
    let mut samples = vec![];
    for (e, d, v, s) in parts {
        evals += e;
        distinct += d;
        viol.extend(v);
        samples.extend(s);
    }
    samples.push(json!({"systematic_identifier": ids[100].to_string()}));
    let ev = json!({
        "evaluations": evals,
        "distinct_nontrivial": distinct,
        "rule": "distinct ordered pairs low < high of identifiers on which between() was checked for strict betweenness with 4-6 markers (systematic alphabet: rationals {-1,0,1/2,1} x markers {0,1,2}, depth <= 3; random deep paths incl. prefix-related pairs and equal-rational siblings; bisection chains)",
        "samples": samples,
        "systematic_identifiers": nids, "systematic_left_operand_stride": stride,
        "exhaustive": cx.thorough,
        "exhaustive_scope": "thorough tier only: all ordered pairs of the 1884 systematic identifiers x 4 markers; the random part is never exhaustive",
    });
    let inconclusive = if evals < 10_000 { Some("vacuous".into()) } else { None };
    Verdict { violations: viol, known_lines: vec![], inconclusive, evidence: ev, known_samples: vec![] }
}

// =====================================================================================  C18
fn sub(c: &M, by: &M) -> M {
    c.iter().filter(|(a, n)| **n > g(by, **a)).map(|(a, n)| (*a, *n)).collect()
}
fn norm_deferred(d: &Dump) -> Dump {
    // member/key sets of pending removes are unordered
    Dump::Map(
        d.as_map()
            .iter()
            .map(|(c, ms)| {
                let mut v = ms.as_seq().to_vec();
                v.sort();
                (c.clone(), Dump::Seq(v))
            })
            .collect(),
    )
}
fn model_deferred(d: &Dump, c: &M) -> Dump {
    let mut out: BTreeMap<M, BTreeSet<Dump>> = BTreeMap::new();
    for (clk, ms) in d.as_map() {
        let nc = sub(&clk.as_clk(), c);
        if nc.is_empty() {
            continue;
        }
        // pending removes whose contexts become equal are *united*
        out.entry(nc).or_default().extend(ms.as_seq().iter().cloned());
    }
    let mut v: Vec<(Dump, Dump)> = out.into_iter().map(|(k, ms)| (Dump::clk(&k), Dump::Seq(ms.into_iter().collect()))).collect();
    v.sort();
    Dump::Map(v)
}
/// model of reset_remove on a dumped state
pub fn rr_model(d: &Dump, c: &M) -> Dump {
    match d {
        // VClock / GCounter (transparent maps actor -> counter)
        Dump::Map(_) => Dump::clk(&sub(&d.as_clk(), c)),
        // MVReg: transparent list of (clock, value)
        Dump::Seq(vals) => Dump::Seq(
            vals.iter()
                .filter_map(|cv| {
                    let cv = cv.as_seq();
                    let nc = sub(&cv[0].as_clk(), c);
                    if nc.is_empty() {
                        None
                    } else {
                        Some(Dump::Seq(vec![Dump::clk(&nc), cv[1].clone()]))
                    }
                })
                .collect(),
        ),
        Dump::Struct(name, fs) if *name == "PNCounter" => Dump::Struct(name, fs.iter().map(|(k, v)| (*k, rr_model(v, c))).collect()),
        Dump::Struct(name, fs) if *name == "Orswot" => Dump::Struct(
            name,
            fs.iter()
                .map(|(k, v)| {
                    (
                        *k,
                        match *k {
                            "clock" => Dump::clk(&sub(&v.as_clk(), c)),
                            "entries" => Dump::Map(v.as_map().iter().filter_map(|(m, w)| { let nw = sub(&w.as_clk(), c); if nw.is_empty() { None } else { Some((m.clone(), Dump::clk(&nw))) } }).collect()),
                            _ => model_deferred(v, c),
                        },
                    )
                })
                .collect(),
        ),
        Dump::Struct(name, fs) if *name == "Map" => Dump::Struct(
            name,
            fs.iter()
                .map(|(k, v)| {
                    (
                        *k,
                        match *k {
                            "clock" => Dump::clk(&sub(&v.as_clk(), c)),
                            "entries" => Dump::Map(
                                v.as_map()
                                    .iter()
                                    .filter_map(|(key, e)| {
                                        let nw = sub(&e.field("clock").unwrap().as_clk(), c);
                                        if nw.is_empty() {
                                            None
                                        } else {
                                            Some((key.clone(), Dump::Struct("Entry", vec![("clock", Dump::clk(&nw)), ("val", rr_model(e.field("val").unwrap(), c))])))
                                        }
                                    })
                                    .collect(),
                            ),
                            _ => model_deferred(v, c),
                        },
                    )
                })
                .collect(),
        ),
        x => x.clone(),
    }
}
pub fn rr_norm(d: &Dump) -> Dump {
    match d {
        Dump::Struct(name, fs) => Dump::Struct(name, fs.iter().map(|(k, v)| (*k, if *k == "deferred" { norm_deferred(v) } else { rr_norm(v) })).collect()),
        Dump::Map(v) => Dump::Map(v.iter().map(|(k, x)| (k.clone(), rr_norm(x))).collect()),
        x => x.clone(),
    }
}

#[derive(Default)]
struct RrStats {
    evals: u64,
    states: HashSet<u64>,
    with_pending: u64,
    collisions: u64,
    behavioural: u64,
    r8: u64,
    viol: Vec<Finding>,
    samples: Vec<serde_json::Value>,
}

fn dhash(d: &Dump) -> u64 {
    use std::hash::{Hash, Hasher};
    let mut h = std::collections::hash_map::DefaultHasher::new();
    format!("{d:?}").hash(&mut h);
    h.finish()
}

fn rr_state<S: Sut>(s: &S, rng: &mut Rng, st: &mut RrStats, seed: u64) {
    let d0 = dump(s);
    let has_pending = pending_count(&d0) > 0;
    let mut pool: BTreeSet<M> = BTreeSet::new();
    collect_clocks(&d0, &mut pool);
    if let Dump::Map(_) = d0 {
        pool.insert(d0.as_clk());
    }
    let pool: Vec<M> = pool.into_iter().collect();
    let mut rand_clock = |rng: &mut Rng| -> M {
        // below / above / concurrent with the state's clocks
        if !pool.is_empty() && rng.chance(1, 2) {
            let mut c = rng.pick(&pool).clone();
            if rng.chance(1, 2) {
                let a = rng.below(4) as u8;
                let v = g(&c, a);
                let nv = if rng.chance(1, 2) { v + 1 } else { v.saturating_sub(1) };
                if nv == 0 {
                    c.remove(&a);
                } else {
                    c.insert(a, nv);
                }
            }
            c
        } else {
            (0..4u8).filter_map(|a| { let v = rng.below(5) as u64; if v > 0 { Some((a, v)) } else { None } }).collect()
        }
    };
    let mut record = |kind: &str, detail: String, st: &mut RrStats| {
        if st.viol.len() < 4 {
            st.viol.push(finding(kind, S::NAME, detail, seed));
        }
    };
    for _ in 0..4 {
        let c1 = rand_clock(rng);
        let c2 = rand_clock(rng);
        st.evals += 1;
        st.states.insert(mix(dhash(&d0), c1.iter().fold(3u64, |h, (a, n)| mix(h, mix(*a as u64, *n)))));
        if has_pending {
            st.with_pending += 1;
        }
        // (a) exact model
        let mut a = s.clone();
        a.reset_remove_c(&c1);
        let got = dump(&a);
        let want = norm(&rr_model(&d0, &c1));
        if pending_count(&want) < surviving_pending(&d0, &c1) {
            // two pending removes whose contexts become equal once c1 is subtracted (must be united)
            st.collisions += 1;
        }
        if got != want {
            record("reset_remove", format!("reset_remove({c1:?}) on {}\n   gives  {}\n   model  {}", d0.show(), got.show(), want.show()), st);
            continue;
        }
        if st.samples.len() < 2 && has_pending {
            st.samples.push(json!({"sut": S::NAME, "state": d0.show(), "clock": format!("{c1:?}"), "result": got.show()}));
        }
        // (b) laws
        let mut e = s.clone();
        e.reset_remove_c(&M::new());
        if dump(&e) != d0 {
            record("reset_remove", format!("reset_remove(empty clock) changed {}", d0.show()), st);
        }
        let mut i2 = a.clone();
        i2.reset_remove_c(&c1);
        if dump(&i2) != got {
            record("reset_remove", format!("reset_remove({c1:?}) is not idempotent on {}", d0.show()), st);
        }
        let mut seq = a.clone();
        seq.reset_remove_c(&c2);
        let mut j = c1.clone();
        cjoin_all(&mut j, &c2);
        let mut joined = s.clone();
        joined.reset_remove_c(&j);
        if dump(&seq) != dump(&joined) {
            record("reset_remove", format!("reset_remove({c1:?}) then ({c2:?}) differs from reset_remove of their join on {}\n   seq    {}\n   joined {}", d0.show(), dump(&seq).show(), dump(&joined).show()), st);
        }
        // (c) reads: everything all of whose witnesses are covered is gone, the rest stays
        let o = a.observe();
        if let Some(why) = o.incoherent {
            record("reset_remove", format!("after reset_remove({c1:?}) reads are incoherent: {why}"), st);
        }
    }
    // own full clock empties the replica
    if let Some(own) = own_clock(&d0) {
        st.evals += 1;
        let mut f = s.clone();
        f.reset_remove_c(&own);
        let df = dump(&f);
        let empty_reads = match &df {
            Dump::Map(m) => m.is_empty(),
            Dump::Seq(v) => v.is_empty(),
            Dump::Struct(_, fs) => fs.iter().all(|(k, v)| *k == "deferred" || v.as_map().is_empty() && v.as_seq().is_empty() && !matches!(v, Dump::Struct(..)) || matches!(v, Dump::Struct(..)) && pending_free_empty(v)),
            _ => true,
        };
        if !empty_reads {
            record("reset_remove", format!("reset_remove(own clock {own:?}) did not empty {}\n   left {}", d0.show(), df.show()), st);
        }
    }
}
fn pending_free_empty(d: &Dump) -> bool {
    match d {
        Dump::Map(m) => m.is_empty(),
        Dump::Seq(v) => v.is_empty(),
        Dump::Struct(_, fs) => fs.iter().all(|(_, v)| pending_free_empty(v)),
        _ => true,
    }
}
fn strip_deferred(d: &Dump) -> Dump {
    match d {
        Dump::Struct(name, fs) => Dump::Struct(name, fs.iter().filter(|(k, _)| *k != "deferred").map(|(k, v)| (*k, strip_deferred(v))).collect()),
        Dump::Map(v) => Dump::Map(v.iter().map(|(k, x)| (k.clone(), strip_deferred(x))).collect()),
        x => x.clone(),
    }
}
/// number of pending removes that survive `c` when colliding ones are *not* united (to count collision cases)
fn surviving_pending(d: &Dump, c: &M) -> usize {
    match d {
        Dump::Struct(_, fs) => fs
            .iter()
            .map(|(k, v)| {
                if *k == "deferred" {
                    v.as_map().iter().filter(|(clk, _)| !sub(&clk.as_clk(), c).is_empty()).count()
                } else if *k == "entries" {
                    // entries that reset_remove drops take their nested pending removes with them
                    v.as_map().iter().map(|(_, e)| match e.field("clock") {
                        Some(ec) if sub(&ec.as_clk(), c).is_empty() => 0,
                        _ => surviving_pending(e, c),
                    }).sum()
                } else {
                    surviving_pending(v, c)
                }
            })
            .sum(),
        Dump::Map(v) => v.iter().map(|(_, x)| surviving_pending(x, c)).sum(),
        Dump::Seq(v) => v.iter().map(|x| surviving_pending(x, c)).sum(),
        _ => 0,
    }
}
fn own_clock(d: &Dump) -> Option<M> {
    match d {
        Dump::Map(_) => Some(d.as_clk()),
        Dump::Struct(name, fs) if *name == "PNCounter" => {
            let mut c = M::new();
            for (_, v) in fs {
                cjoin_all(&mut c, &v.as_clk());
            }
            Some(c)
        }
        Dump::Struct(_, _) => d.field("clock").map(|c| c.as_clk()),
        Dump::Seq(vals) => {
            let mut c = M::new();
            for cv in vals {
                cjoin_all(&mut c, &cv.as_seq()[0].as_clk());
            }
            Some(c)
        }
        _ => None,
    }
}

fn rr_campaign<S: Sut>(seed: u64, n: u64, threads: usize) -> RrStats {
    let per = n / threads as u64 + 1;
    let parts: Vec<RrStats> = std::thread::scope(|sc| {
        let hs: Vec<_> = (0..threads as u64)
            .map(|t| {
                sc.spawn(move || {
                    let mut st = RrStats::default();
                    let mut rng = Rng::new(mix(seed, 31 + t));
                    for h in 0..per {
                        let mut c = Cfg::base(3, 18, if h % 3 == 0 { Delivery::Causal } else { S::WEAKEST }, 0);
                        c.merges = h % 2 == 0 && S::HAS_MERGE;
                        c.policy = 255;
                        let o = gen_history::<S>(mix(seed, t * 1_000_003 + h), c, None);
                        let mut states: Vec<&S> = o.world.reps.iter().collect();
                        for p in &o.world.past {
                            if let Some(s) = p.get(rng.below(p.len().max(1))) {
                                states.push(s);
                            }
                        }
                        for s in states {
                            rr_state(s, &mut rng, &mut st, seed);
                            // the same state holding a few removes that overtook the adds they observed
                            // (contexts ahead of / concurrent with the state's clock, some of them close enough
                            // to become *equal* once a clock is subtracted)
                            if S::IS_MAP || S::NAME == "OS" {
                                let mut t = s.clone();
                                let base = own_clock(&dump(&t)).unwrap_or_default();
                                for _ in 0..1 + rng.below(3) {
                                    let mut ctx = M::new();
                                    for a in 0..4u8 {
                                        if rng.chance(1, 2) {
                                            ctx.insert(a, g(&base, a) + 1 + rng.below(2) as u64);
                                        } else if g(&base, a) > 0 && rng.chance(1, 2) {
                                            ctx.insert(a, g(&base, a));
                                        }
                                    }
                                    if ctx.is_empty() {
                                        ctx.insert(rng.below(4) as u8, g(&base, 0) + 2);
                                    }
                                    t.inject_future_remove(&ctx, rng.below(3) as u8);
                                }
                                rr_state(&t, &mut rng, &mut st, seed);
                            }
                        }
                    }
                    st
                })
            })
            .collect();
        hs.into_iter().map(|h| h.join().unwrap()).collect()
    });
    let mut tot = RrStats::default();
    for p in parts {
        tot.evals += p.evals;
        tot.states.extend(p.states);
        tot.with_pending += p.with_pending;
        tot.collisions += p.collisions;
        tot.behavioural += p.behavioural;
        tot.r8 += p.r8;
        tot.viol.extend(p.viol);
        if tot.samples.len() < 4 {
            tot.samples.extend(p.samples);
        }
    }
    tot
}

/// behavioural half: a pending remove that survives reset_remove must still remove the adds it covers
fn rr_behavioural(seed: u64, n: u64, st: &mut RrStats) {
    use crdts::orswot::Op;
    let mut rng = Rng::new(mix(seed, 4242));
    for _ in 0..n {
        let mut s: OS = crdts::Orswot::new();
        // a few adds by actor 0 so that the state has a clock, then pending removes from the future
        for _ in 0..rng.below(3) {
            let op = s.add(rng.below(3) as u8, s.read_ctx().derive_add_ctx(0));
            s.apply(op);
        }
        let npend = 1 + rng.below(3);
        let mut pend: Vec<(M, u8)> = vec![];
        for _ in 0..npend {
            let ctx: M = [(1u8, 1 + rng.below(3) as u64), (2u8, 1 + rng.below(3) as u64)].into_iter().filter(|_| rng.chance(3, 4)).collect();
            if ctx.is_empty() {
                continue;
            }
            let m = 10 + rng.below(3) as u8;
            s.apply(Op::Rm { clock: mkvc(&ctx), members: vec![m] });
            pend.push((ctx, m));
        }
        let c: M = [(1u8, rng.below(3) as u64), (2u8, rng.below(4) as u64)].into_iter().filter(|(_, v)| *v > 0).collect();
        let mut t = s.clone();
        t.reset_remove(&mkvc(&c));
        // deliver, for every pending remove, the adds it covers that reset_remove(c) did not forget
        for (ctx, m) in &pend {
            for (a, n) in ctx {
                for cnt in 1..=*n {
                    if cnt > g(&c, *a) && t.clock().get(a) + 1 == cnt {
                        st.behavioural += 1;
                        st.evals += 1;
                        t.apply(Op::Add { dot: Dot::new(*a, cnt), members: vec![*m] });
                        // the add (a,cnt) is covered by a pending remove of m that survived (its context minus c still covers it)
                        let w = vc(&t.contains(m).rm_clock);
                        if g(&w, *a) >= cnt {
                            if st.viol.len() < 4 {
                                st.viol.push(finding("reset_remove", "OS", format!("pending remove of {m} with context {ctx:?} was lost by reset_remove({c:?}): a later add ({a},{cnt}) of {m} survives\n   state before {}\n   after {}", dump(&s).show(), dump(&t).show()), seed));
                            }
                        }
                    }
                }
            }
        }
    }
}

fn c18(cx: &RunCtx, known: &Known) -> Verdict {
    let t0 = Instant::now();
    let n = ((if cx.thorough { 40_000.0 } else { 4000.0 }) * cx.scale) as u64;
    let mut tot = RrStats::default();
    let mut per = vec![];
    macro_rules! go {
        ($t:ty, $i:expr) => {{
            let s = rr_campaign::<$t>(mix(cx.seed, $i), n, cx.threads);
            per.push(json!({"sut": <$t as Sut>::NAME, "evaluations": s.evals, "distinct_state_clock_pairs": s.states.len(), "with_pending_removes": s.with_pending, "pending_collisions": s.collisions, "violations": s.viol.len()}));
            tot.evals += s.evals;
            tot.states.extend(s.states);
            tot.with_pending += s.with_pending;
            tot.collisions += s.collisions;
            tot.r8 += s.r8;
            tot.viol.extend(s.viol);
            tot.samples.extend(s.samples.into_iter().take(1));
        }};
    }
    go!(VC, 1);
    go!(GC, 2);
    go!(PN, 3);
    go!(MV, 4);
    go!(OS, 5);
    go!(MO, 6);
    go!(MM, 7);
    go!(MMO, 8);
    rr_behavioural(cx.seed, n * 20, &mut tot);
    let known_lines = crate::known::replay_pinned("C18", known);
    if tot.samples.is_empty() {
        tot.samples.push(json!("no state with pending removes sampled"));
    }
    let ev = json!({
        "evaluations": tot.evals,
        "distinct_nontrivial": tot.states.len(),
        "rule": "distinct (reachable state, clock) pairs on which dump(reset_remove(s,c)) was compared with the model; states are harvested from E1 histories (causal and FIFO, with merges; incl. states holding pending removes), clocks are below/above/concurrent with the state's clocks",
        "samples": tot.samples,
        "with_pending_removes": tot.with_pending, "pending_collision_cases": tot.collisions, "behavioural_redeliveries": tot.behavioural,
        "per_type": per, "exhaustive": false, "wall_job_s": t0.elapsed().as_secs_f64(),
    });
    let mut inconclusive = if tot.evals < 5_000 { Some("vacuous".to_string()) } else { None };
    if tot.with_pending < 100 {
        inconclusive = Some(format!("vacuous: only {} evaluations on states with pending removes", tot.with_pending));
    }
    if tot.behavioural < 100 {
        inconclusive = Some(format!("vacuous: only {} behavioural re-deliveries", tot.behavioural));
    }
    Verdict { violations: tot.viol, known_lines, inconclusive, evidence: ev, known_samples: vec![] }
}

// =====================================================================================  C19 (E2 part)
/// Round trips through the crate's generic serde paths with *other* element/member types than the ones the
/// simulated histories use: optional and unit values, strings, byte vectors, tuples, nested CRDTs and values that
/// themselves contain integer-keyed maps. States are built by two actors with concurrent edits and out-of-order
/// delivery (orphans, nested identifiers), serialised, restored, compared (==, JSON again) and continued.
pub fn serde_types(seed: u64, rounds: u64) -> (u64, u64, Vec<Finding>, Vec<serde_json::Value>) {
    use crdts::merkle_reg::MerkleReg;
    use crdts::{GList, List, MVReg, Orswot};
    use serde::{de::DeserializeOwned, Serialize};
    let mut evals = 0u64;
    let mut distinct: HashSet<u64> = HashSet::new();
    let mut viol: Vec<Finding> = vec![];
    let mut samples = vec![];
    fn rt<T: Serialize + DeserializeOwned + PartialEq + std::fmt::Debug>(what: &str, x: &T, viol: &mut Vec<Finding>, seed: u64) -> Option<T> {
        let js = match serde_json::to_string(x) {
            Ok(j) => j,
            Err(e) => {
                viol.push(finding("serde_types", what, format!("{what}: serialising failed: {e}; value {x:?}"), seed));
                return None;
            }
        };
        match serde_json::from_str::<T>(&js) {
            Err(e) => {
                viol.push(finding("serde_types", what, format!("{what}: does not deserialise: {e}; json {js}"), seed));
                None
            }
            Ok(back) => {
                // (JSON text is not compared: hash-map iteration order is free to differ)
                if &back != x || dump(&back) != dump(x) {
                    viol.push(finding("serde_types", what, format!("{what}: round trip differs\n   before {x:?}\n   after  {back:?}"), seed));
                }
                Some(back)
            }
        }
    }
    // generic List scenario over the value type
    fn list_case<T: Clone + Serialize + DeserializeOwned + PartialEq + std::fmt::Debug>(what: &str, vals: &[T], rng: &mut Rng, viol: &mut Vec<Finding>, seed: u64, evals: &mut u64, distinct: &mut HashSet<u64>) {
        let mut a: List<T, u8> = List::new();
        let mut b: List<T, u8> = List::new();
        let mut ops_a = vec![];
        let mut ops_b = vec![];
        for i in 0..(3 + rng.below(5)) {
            let v = vals[rng.below(vals.len())].clone();
            if rng.chance(1, 2) {
                let ix = rng.below(a.len() + 1);
                let op = if a.len() > 1 && rng.chance(1, 5) { a.delete_index(rng.below(a.len()), 1).unwrap() } else { a.insert_index(ix, v, 1) };
                a.apply(op.clone());
                ops_a.push(op);
            } else {
                let ix = rng.below(b.len() + 1);
                let op = b.insert_index(ix, v, 2);
                b.apply(op.clone());
                ops_b.push(op);
            }
            if i % 3 == 2 {
                for op in ops_b.drain(..) {
                    rt(&format!("{what} op"), &op, viol, seed);
                    a.apply(op);
                }
                for op in ops_a.drain(..) {
                    b.apply(op);
                }
            }
            *evals += 1;
            distinct.insert(dhash(&dump(&a)));
            if let Some(mut back) = rt(what, &a, viol, seed) {
                // the restored replica must continue identically
                let v = vals[rng.below(vals.len())].clone();
                let op1 = a.insert_index(0, v.clone(), 1);
                let op2 = back.insert_index(0, v, 1);
                if op1 != op2 {
                    viol.push(finding("serde_types", what, format!("{what}: restored replica generates a different op: {op1:?} vs {op2:?}"), seed));
                }
            }
        }
    }
    let mut rng = Rng::new(mix(seed, 9191));
    for _ in 0..rounds {
        list_case("List<Option<u32>>", &[None, Some(1), Some(2), None, Some(0)], &mut rng, &mut viol, seed, &mut evals, &mut distinct);
        list_case("List<()>", &[(), ()], &mut rng, &mut viol, seed, &mut evals, &mut distinct);
        list_case("List<String>", &["".to_string(), "a".to_string(), "\"q\\\n".to_string(), "é".to_string()], &mut rng, &mut viol, seed, &mut evals, &mut distinct);
        list_case("List<Vec<u8>>", &[vec![], vec![0], vec![255, 1, 2]], &mut rng, &mut viol, seed, &mut evals, &mut distinct);
        list_case("List<(u8,i64)>", &[(0, -1), (7, i64::MIN), (7, i64::MAX)], &mut rng, &mut viol, seed, &mut evals, &mut distinct);
        {
            // values that are CRDTs containing integer-keyed clocks
            let mut r1: MVReg<u32, u8> = MVReg::new();
            let mut r2: MVReg<u32, u8> = MVReg::new();
            r1.apply(r1.write(5, r1.read_ctx().derive_add_ctx(1)));
            r2.apply(r2.write(6, r2.read_ctx().derive_add_ctx(2)));
            let mut r12 = r1.clone();
            r12.merge(r2.clone());
            list_case("List<MVReg<u32,u8>>", &[r1, r2, r12, MVReg::new()], &mut rng, &mut viol, seed, &mut evals, &mut distinct);
            let m: BTreeMap<u8, u8> = [(1, 2), (3, 4)].into_iter().collect();
            list_case("List<BTreeMap<u8,u8>>", &[m, BTreeMap::new()], &mut rng, &mut viol, seed, &mut evals, &mut distinct);
        }
        // Orswot with other member types
        {
            let mut s: Orswot<String, u8> = Orswot::new();
            for m in ["x", "", "y z"] {
                s.apply(s.add(m.to_string(), s.read_ctx().derive_add_ctx(rng.below(3) as u8)));
                evals += 1;
                rt("Orswot<String>", &s, &mut viol, seed);
            }
            let op = s.rm("x".to_string(), s.contains(&"x".to_string()).derive_rm_ctx());
            rt("Orswot<String> op", &op, &mut viol, seed);
            // member types that serde_json cannot use as object keys (tuples, options) are not exercised: that is a
            // limitation of the JSON representation the crate chose for `entries`, of the same family as R5
        }
        // GList / MerkleReg with strings and byte vectors, delivered out of order (orphans)
        {
            let mut g: GList<String> = GList::new();
            for v in ["b", "a", "", "a"] {
                let ix = rng.below(g.len() + 1);
                g.apply(g.insert(ix, v.to_string()));
                evals += 1;
                rt("GList<String>", &g, &mut viol, seed);
            }
            let mut mk: MerkleReg<Vec<u8>> = MerkleReg::new();
            let n1 = mk.write(vec![1], Default::default());
            let n2 = mk.write(vec![], [n1.hash()].into_iter().collect());
            let n3 = mk.write(vec![9, 9], [n2.hash()].into_iter().collect());
            for n in [n3, n1, n2] {
                mk.apply(n.clone());
                evals += 1;
                distinct.insert(dhash(&dump(&mk)));
                rt("MerkleReg<Vec<u8>>", &mk, &mut viol, seed);
                rt("MerkleReg node", &n, &mut viol, seed);
            }
        }
        if viol.len() > 8 {
            break;
        }
    }
    samples.push(json!({"serde_types": ["List<Option<u32>>", "List<()>", "List<String>", "List<Vec<u8>>", "List<(u8,i64)>", "List<MVReg<u32,u8>>", "List<BTreeMap<u8,u8>>", "Orswot<String>", "GList<String>", "MerkleReg<Vec<u8>>"]}));
    viol.truncate(6);
    (evals, distinct.len() as u64, viol, samples)
}

// ------------------------------------------------------------------------------------------------
// C13, long sequences: the replicated-system workloads are limited to 128 ops per history, so lists with hundreds
// of elements are driven here: one replica grows a GList / List far beyond that, every single edit is compared with
// a Vec model (read, len, get/position at probe indices, first/last); then a second replica forks, both keep
// editing, and they exchange state (GList) or ops (List).
pub fn long_lists(seed: u64, rounds: u64) -> (u64, u64, Vec<Finding>, serde_json::Value) {
    use crdts::{CmRDT, CvRDT, GList, List};
    let mut evals = 0u64;
    let mut viol: Vec<Finding> = vec![];
    let mut max_len = (0usize, 0usize);
    // index choice biased to the ends, the back half and the middle
    fn pick(rng: &mut Rng, len: usize) -> usize {
        let ix = match rng.below(7) {
            0 => len,
            1 => len.saturating_sub(1 + rng.below(4)),
            2 => len / 2 + rng.below(len / 2 + 1),
            3 => 0,
            4 => len * 3 / 4,
            5 => len / 2 + 1,
            _ => rng.below(len + 1),
        };
        ix.min(len)
    }
    for h in 0..rounds {
        let mut rng = Rng::new(mix(seed, 7700 + h));
        // ---- GList
        let target = 140 + rng.below(200);
        let mut g: GList<u32> = GList::new();
        let mut model: Vec<u32> = vec![];
        let mut next = 1u32;
        let mut edit_g = |g: &mut GList<u32>, model: &mut Vec<u32>, rng: &mut Rng, next: &mut u32, who: &str| -> Option<String> {
            let len = model.len();
            let ix = pick(rng, len);
            let x = *next;
            *next += 1;
            let op = g.insert(ix, x);
            g.apply(op);
            model.insert(ix, x);
            let got: Vec<u32> = g.read::<Vec<&u32>>().into_iter().cloned().collect();
            if got != *model {
                let at = got.iter().position(|e| *e == x);
                return Some(format!("GList ({who}) of {len} elements: insert({ix}, {x}) landed at {at:?}"));
            }
            if g.len() != model.len() || g.first().map(|i| *i.value()) != model.first().cloned() || g.last().map(|i| *i.value()) != model.last().cloned() {
                return Some(format!("GList ({who}) of {} elements: len/first/last disagree with read()", model.len()));
            }
            for p in [ix, len / 2 + 1, len.saturating_sub(2), pick(rng, len)] {
                if p < model.len() && g.get(p).map(|i| *i.value()) != Some(model[p]) {
                    return Some(format!("GList ({who}) of {} elements: get({p}) = {:?}, read()[{p}] = {}", model.len(), g.get(p).map(|i| *i.value()), model[p]));
                }
            }
            None
        };
        let mut bad: Option<String> = None;
        while model.len() < target && bad.is_none() {
            bad = edit_g(&mut g, &mut model, &mut rng, &mut next, "single replica");
            evals += 1;
        }
        if bad.is_none() {
            let (mut g2, mut model2) = (g.clone(), model.clone());
            for _ in 0..12 {
                if bad.is_none() {
                    bad = edit_g(&mut g, &mut model, &mut rng, &mut next, "fork a");
                }
                if bad.is_none() {
                    bad = edit_g(&mut g2, &mut model2, &mut rng, &mut next, "fork b");
                }
                evals += 2;
            }
            if bad.is_none() {
                let (a0, b0) = (g.clone(), g2.clone());
                g.merge(b0);
                g2.merge(a0);
                let ra: Vec<u32> = g.read::<Vec<&u32>>().into_iter().cloned().collect();
                let rb: Vec<u32> = g2.read::<Vec<&u32>>().into_iter().cloned().collect();
                let mut want: Vec<u32> = model.iter().chain(model2.iter()).cloned().collect();
                want.sort();
                want.dedup();
                let mut have = ra.clone();
                have.sort();
                evals += 1;
                if ra != rb || have != want {
                    bad = Some(format!("GList forks of {} and {} elements: merged reads differ or lose elements ({} vs {} of {})", model.len(), model2.len(), ra.len(), rb.len(), want.len()));
                } else {
                    // relative order of each fork is kept
                    let keep = |r: &Vec<u32>, m: &Vec<u32>| -> bool { r.iter().filter(|e| m.contains(e)).cloned().collect::<Vec<u32>>() == *m };
                    if !keep(&ra, &model) || !keep(&ra, &model2) {
                        bad = Some("GList merge reorders the elements of a fork".into());
                    }
                }
            }
        }
        max_len.0 = max_len.0.max(model.len());
        if let Some(b) = bad {
            if viol.len() < 5 {
                viol.push(finding("seq_long", "GL", b, seed));
            }
        }
        // ---- List
        let target = 70 + rng.below(150);
        let mut l: List<u32, u8> = List::new();
        let mut model: Vec<u32> = vec![];
        let mut edit_l = |l: &mut List<u32, u8>, model: &mut Vec<u32>, rng: &mut Rng, next: &mut u32, actor: u8, who: &str| -> (Option<String>, Option<crdts::list::Op<u32, u8>>) {
            let len = model.len();
            if len > 3 && rng.chance(1, 6) {
                let ix = pick(rng, len - 1).min(len - 1);
                let Some(op) = l.delete_index(ix, actor) else { return (Some(format!("List ({who}) of {len}: delete_index({ix}) declined")), None) };
                l.apply(op.clone());
                let e = model.remove(ix);
                let got: Vec<u32> = l.read::<Vec<&u32>>().into_iter().cloned().collect();
                if got != *model {
                    return (Some(format!("List ({who}) of {len} elements: delete_index({ix}) should remove {e}; Vec model and read() differ")), None);
                }
                return (None, Some(op));
            }
            let ix = pick(rng, len);
            let x = *next;
            *next += 1;
            let op = if ix == len && rng.chance(1, 2) { l.append(x, actor) } else { l.insert_index(ix, x, actor) };
            l.apply(op.clone());
            model.insert(ix, x);
            let got: Vec<u32> = l.read::<Vec<&u32>>().into_iter().cloned().collect();
            if got != *model {
                let at = got.iter().position(|e| *e == x);
                return (Some(format!("List ({who}) of {len} elements: insert_index({ix}, {x}) landed at {at:?}")), None);
            }
            if l.len() != model.len() || l.position(ix) != Some(&x) || l.first() != model.first() || l.last() != model.last() {
                return (Some(format!("List ({who}) of {} elements: len/position/first/last disagree with read()", model.len())), None);
            }
            (None, Some(op))
        };
        let mut bad: Option<String> = None;
        while model.len() < target && bad.is_none() {
            bad = edit_l(&mut l, &mut model, &mut rng, &mut next, 1, "single replica").0;
            evals += 1;
        }
        if bad.is_none() {
            let (mut l2, mut model2) = (l.clone(), model.clone());
            let (mut ops_a, mut ops_b) = (vec![], vec![]);
            for _ in 0..12 {
                if bad.is_none() {
                    let (b, op) = edit_l(&mut l, &mut model, &mut rng, &mut next, 1, "fork a");
                    bad = b;
                    ops_a.extend(op);
                }
                if bad.is_none() {
                    let (b, op) = edit_l(&mut l2, &mut model2, &mut rng, &mut next, 2, "fork b");
                    bad = b;
                    ops_b.extend(op);
                }
                evals += 2;
            }
            if bad.is_none() {
                for op in ops_b {
                    l.apply(op);
                }
                for op in ops_a {
                    l2.apply(op);
                }
                evals += 1;
                let ra: Vec<u32> = l.read::<Vec<&u32>>().into_iter().cloned().collect();
                let rb: Vec<u32> = l2.read::<Vec<&u32>>().into_iter().cloned().collect();
                if ra != rb {
                    bad = Some(format!("List forks of {} and {} elements read differently after exchanging their ops", model.len(), model2.len()));
                }
            }
        }
        max_len.1 = max_len.1.max(model.len());
        if let Some(b) = bad {
            if viol.len() < 5 {
                viol.push(finding("seq_long", "LI", b, seed));
            }
        }
    }
    (evals, evals, viol, serde_json::json!({"rounds": rounds, "longest_glist": max_len.0, "longest_list": max_len.1}))
}
