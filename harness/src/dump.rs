//! serde::Serializer -> `Dump` tree. Unlike serde_json it accepts non-string map keys, so it
//! observes every private field of the crate's states and ops (deferred tables, entry clocks, ...)
//! through the public `Serialize` impls. Map entries are sorted, so HashMap order is normalised.
use serde::ser::{self, Serialize};
use std::fmt;

#[derive(Debug, Clone, PartialEq, Eq, PartialOrd, Ord, Hash)]
pub enum Dump {
    Unit,
    Bool(bool),
    I(i128),
    U(u128),
    F(String),
    Str(String),
    Bytes(Vec<u8>),
    Seq(Vec<Dump>),
    Map(Vec<(Dump, Dump)>),
    Struct(&'static str, Vec<(&'static str, Dump)>),
    Variant(&'static str, &'static str, Box<Dump>),
    None,
    Some(Box<Dump>),
}

#[derive(Debug)]
pub struct Err(String);
impl fmt::Display for Err { fn fmt(&self, f: &mut fmt::Formatter) -> fmt::Result { write!(f, "{}", self.0) } }
impl std::error::Error for Err {}
impl ser::Error for Err { fn custom<T: fmt::Display>(msg: T) -> Self { Err(msg.to_string()) } }

pub struct S;
pub struct SeqS(Vec<Dump>);
pub struct MapS(Vec<(Dump, Dump)>, Option<Dump>);
pub struct StructS(&'static str, Vec<(&'static str, Dump)>);
pub struct VarSeqS(&'static str, &'static str, Vec<Dump>);
pub struct VarStructS(&'static str, &'static str, Vec<(&'static str, Dump)>);

pub fn dump<T: Serialize>(t: &T) -> Dump { t.serialize(S).unwrap() }

impl ser::Serializer for S {
    type Ok = Dump; type Error = Err;
    type SerializeSeq = SeqS; type SerializeTuple = SeqS; type SerializeTupleStruct = SeqS; type SerializeTupleVariant = VarSeqS;
    type SerializeMap = MapS; type SerializeStruct = StructS; type SerializeStructVariant = VarStructS;
    fn serialize_bool(self, v: bool) -> Result<Dump, Err> { Ok(Dump::Bool(v)) }
    fn serialize_i8(self, v: i8) -> Result<Dump, Err> { Ok(Dump::I(v as i128)) }
    fn serialize_i16(self, v: i16) -> Result<Dump, Err> { Ok(Dump::I(v as i128)) }
    fn serialize_i32(self, v: i32) -> Result<Dump, Err> { Ok(Dump::I(v as i128)) }
    fn serialize_i64(self, v: i64) -> Result<Dump, Err> { Ok(Dump::I(v as i128)) }
    fn serialize_u8(self, v: u8) -> Result<Dump, Err> { Ok(Dump::U(v as u128)) }
    fn serialize_u16(self, v: u16) -> Result<Dump, Err> { Ok(Dump::U(v as u128)) }
    fn serialize_u32(self, v: u32) -> Result<Dump, Err> { Ok(Dump::U(v as u128)) }
    fn serialize_u64(self, v: u64) -> Result<Dump, Err> { Ok(Dump::U(v as u128)) }
    fn serialize_f32(self, v: f32) -> Result<Dump, Err> { Ok(Dump::F(v.to_string())) }
    fn serialize_f64(self, v: f64) -> Result<Dump, Err> { Ok(Dump::F(v.to_string())) }
    fn serialize_char(self, v: char) -> Result<Dump, Err> { Ok(Dump::Str(v.to_string())) }
    fn serialize_str(self, v: &str) -> Result<Dump, Err> { Ok(Dump::Str(v.to_string())) }
    fn serialize_bytes(self, v: &[u8]) -> Result<Dump, Err> { Ok(Dump::Bytes(v.to_vec())) }
    fn serialize_none(self) -> Result<Dump, Err> { Ok(Dump::None) }
    fn serialize_some<T: ?Sized + Serialize>(self, v: &T) -> Result<Dump, Err> { Ok(Dump::Some(Box::new(v.serialize(S)?))) }
    fn serialize_unit(self) -> Result<Dump, Err> { Ok(Dump::Unit) }
    fn serialize_unit_struct(self, _n: &'static str) -> Result<Dump, Err> { Ok(Dump::Unit) }
    fn serialize_unit_variant(self, n: &'static str, _i: u32, v: &'static str) -> Result<Dump, Err> { Ok(Dump::Variant(n, v, Box::new(Dump::Unit))) }
    fn serialize_newtype_struct<T: ?Sized + Serialize>(self, _n: &'static str, v: &T) -> Result<Dump, Err> { v.serialize(S) }
    fn serialize_newtype_variant<T: ?Sized + Serialize>(self, n: &'static str, _i: u32, var: &'static str, v: &T) -> Result<Dump, Err> { Ok(Dump::Variant(n, var, Box::new(v.serialize(S)?))) }
    fn serialize_seq(self, _l: Option<usize>) -> Result<SeqS, Err> { Ok(SeqS(vec![])) }
    fn serialize_tuple(self, _l: usize) -> Result<SeqS, Err> { Ok(SeqS(vec![])) }
    fn serialize_tuple_struct(self, _n: &'static str, _l: usize) -> Result<SeqS, Err> { Ok(SeqS(vec![])) }
    fn serialize_tuple_variant(self, n: &'static str, _i: u32, v: &'static str, _l: usize) -> Result<VarSeqS, Err> { Ok(VarSeqS(n, v, vec![])) }
    fn serialize_map(self, _l: Option<usize>) -> Result<MapS, Err> { Ok(MapS(vec![], None)) }
    fn serialize_struct(self, n: &'static str, _l: usize) -> Result<StructS, Err> { Ok(StructS(n, vec![])) }
    fn serialize_struct_variant(self, n: &'static str, _i: u32, v: &'static str, _l: usize) -> Result<VarStructS, Err> { Ok(VarStructS(n, v, vec![])) }
}
impl ser::SerializeSeq for SeqS { type Ok = Dump; type Error = Err; fn serialize_element<T: ?Sized + Serialize>(&mut self, v: &T) -> Result<(), Err> { self.0.push(v.serialize(S)?); Ok(()) } fn end(self) -> Result<Dump, Err> { Ok(Dump::Seq(self.0)) } }
impl ser::SerializeTuple for SeqS { type Ok = Dump; type Error = Err; fn serialize_element<T: ?Sized + Serialize>(&mut self, v: &T) -> Result<(), Err> { self.0.push(v.serialize(S)?); Ok(()) } fn end(self) -> Result<Dump, Err> { Ok(Dump::Seq(self.0)) } }
impl ser::SerializeTupleStruct for SeqS { type Ok = Dump; type Error = Err; fn serialize_field<T: ?Sized + Serialize>(&mut self, v: &T) -> Result<(), Err> { self.0.push(v.serialize(S)?); Ok(()) } fn end(self) -> Result<Dump, Err> { Ok(Dump::Seq(self.0)) } }
impl ser::SerializeTupleVariant for VarSeqS { type Ok = Dump; type Error = Err; fn serialize_field<T: ?Sized + Serialize>(&mut self, v: &T) -> Result<(), Err> { self.2.push(v.serialize(S)?); Ok(()) } fn end(self) -> Result<Dump, Err> { Ok(Dump::Variant(self.0, self.1, Box::new(Dump::Seq(self.2)))) } }
impl ser::SerializeMap for MapS { type Ok = Dump; type Error = Err;
    fn serialize_key<T: ?Sized + Serialize>(&mut self, k: &T) -> Result<(), Err> { self.1 = Some(k.serialize(S)?); Ok(()) }
    fn serialize_value<T: ?Sized + Serialize>(&mut self, v: &T) -> Result<(), Err> { let k = self.1.take().unwrap(); self.0.push((k, v.serialize(S)?)); Ok(()) }
    fn end(mut self) -> Result<Dump, Err> { self.0.sort(); Ok(Dump::Map(self.0)) } }
impl ser::SerializeStruct for StructS { type Ok = Dump; type Error = Err; fn serialize_field<T: ?Sized + Serialize>(&mut self, k: &'static str, v: &T) -> Result<(), Err> { self.1.push((k, v.serialize(S)?)); Ok(()) } fn end(self) -> Result<Dump, Err> { Ok(Dump::Struct(self.0, self.1)) } }
impl ser::SerializeStructVariant for VarStructS { type Ok = Dump; type Error = Err; fn serialize_field<T: ?Sized + Serialize>(&mut self, k: &'static str, v: &T) -> Result<(), Err> { self.2.push((k, v.serialize(S)?)); Ok(()) } fn end(self) -> Result<Dump, Err> { Ok(Dump::Variant(self.0, self.1, Box::new(Dump::Struct(self.1, self.2)))) } }


impl Dump {
    pub fn clk(c: &std::collections::BTreeMap<u8, u64>) -> Dump {
        Dump::Map(c.iter().map(|(a, n)| (Dump::U(*a as u128), Dump::U(*n as u128))).collect())
    }
    pub fn u(x: u64) -> Dump {
        Dump::U(x as u128)
    }
    pub fn s(x: &str) -> Dump {
        Dump::Str(x.to_string())
    }
    pub fn rec(fields: Vec<(&'static str, Dump)>) -> Dump {
        Dump::Struct("", fields)
    }
    /// field of a Struct
    pub fn field(&self, name: &str) -> Option<&Dump> {
        match self {
            Dump::Struct(_, fs) => fs.iter().find(|(k, _)| *k == name).map(|(_, v)| v),
            _ => None,
        }
    }
    pub fn as_map(&self) -> &[(Dump, Dump)] {
        match self {
            Dump::Map(v) => v,
            _ => &[],
        }
    }
    pub fn as_seq(&self) -> &[Dump] {
        match self {
            Dump::Seq(v) => v,
            _ => &[],
        }
    }
    pub fn as_u(&self) -> Option<u128> {
        match self {
            Dump::U(x) => Some(*x),
            _ => None,
        }
    }
    /// interpret a dumped VClock (transparent map actor->counter)
    pub fn as_clk(&self) -> std::collections::BTreeMap<u8, u64> {
        self.as_map().iter().filter_map(|(k, v)| Some((k.as_u()? as u8, v.as_u()? as u64))).collect()
    }
    /// compact one-line rendering for logs and replay files
    pub fn show(&self) -> String {
        match self {
            Dump::Unit => "()".into(),
            Dump::Bool(b) => b.to_string(),
            Dump::I(x) => x.to_string(),
            Dump::U(x) => x.to_string(),
            Dump::F(x) => x.clone(),
            Dump::Str(x) => format!("{x:?}"),
            Dump::Bytes(b) => format!("b{:02x?}", &b[..b.len().min(4)]),
            Dump::Seq(v) => format!("[{}]", v.iter().map(|d| d.show()).collect::<Vec<_>>().join(",")),
            Dump::Map(v) => format!("{{{}}}", v.iter().map(|(k, d)| format!("{}:{}", k.show(), d.show())).collect::<Vec<_>>().join(",")),
            Dump::Struct(n, fs) => format!("{n}{{{}}}", fs.iter().map(|(k, d)| format!("{k}={}", d.show())).collect::<Vec<_>>().join(" ")),
            Dump::Variant(_, v, d) => format!("{v}({})", d.show()),
            Dump::None => "None".into(),
            Dump::Some(d) => format!("Some({})", d.show()),
        }
    }
}

/// dump with the semantically unordered parts normalised: member/key sets of pending removes
/// (HashSet -> sorted) and MVReg value lists (order-insensitive by the crate's own `==`)
pub fn dump_norm<T: Serialize>(t: &T) -> Dump {
    norm(&dump(t))
}
pub fn norm(d: &Dump) -> Dump {
    match d {
        Dump::Struct(n, fs) => Dump::Struct(
            n,
            fs.iter()
                .map(|(k, v)| {
                    if *k == "deferred" {
                        let mut m: Vec<(Dump, Dump)> = v
                            .as_map()
                            .iter()
                            .map(|(c, ms)| {
                                let mut s = ms.as_seq().to_vec();
                                s.sort();
                                (c.clone(), Dump::Seq(s))
                            })
                            .collect();
                        m.sort();
                        (*k, Dump::Map(m))
                    } else {
                        (*k, norm(v))
                    }
                })
                .collect(),
        ),
        Dump::Seq(v) => {
            let mut w: Vec<Dump> = v.iter().map(norm).collect();
            let is_mvreg = !w.is_empty() && w.iter().all(|e| matches!(e, Dump::Seq(p) if p.len() == 2 && matches!(p[0], Dump::Map(_))));
            if is_mvreg {
                w.sort();
            }
            Dump::Seq(w)
        }
        Dump::Map(v) => {
            let mut m: Vec<(Dump, Dump)> = v.iter().map(|(k, x)| (norm(k), norm(x))).collect();
            m.sort();
            Dump::Map(m)
        }
        Dump::Variant(a, b, x) => Dump::Variant(a, b, Box::new(norm(x))),
        Dump::Some(x) => Dump::Some(Box::new(norm(x))),
        x => x.clone(),
    }
}
