//! Known findings: committed list (/verif/known_findings.json), pinned minimal witnesses that are
//! replayed on every run, and the "alive" set that gates attribution. Never written at run time.
use crate::campaign::exec;
use crate::checks::dispatch;
use crate::sut::Sut;
use crate::types::causal::*;
use crate::types::seq::*;
use crate::types::simple::*;
use crate::world::{Act, Cfg};
use serde::{Deserialize, Serialize};
use std::collections::BTreeSet;

#[derive(Clone, Debug, Serialize, Deserialize)]
pub struct Witness {
    pub property: String,
    pub sut: String,
    pub cfg: Cfg,
    pub script: Vec<Act>,
    /// monitor kind that must fire ("" = per-event counter, see `counter`)
    pub kind: String,
    /// per-event known findings are observed through a counter instead of a violation
    #[serde(default)]
    pub counter: String,
    pub what: String,
}

#[derive(Clone, Debug, Serialize, Deserialize)]
pub struct Entry {
    pub id: String,
    /// "known" or "fixed"
    pub status: String,
    pub properties: Vec<String>,
    pub what: String,
    #[serde(default)]
    pub commit: String,
    #[serde(default)]
    pub witnesses: Vec<String>,
}

#[derive(Clone, Debug, Default)]
pub struct Known {
    pub entries: Vec<Entry>,
    pub witnesses: Vec<(String, Witness, bool)>, // (finding id, witness, still fails)
}

fn replay_one<S: Sut>(w: &Witness) -> (bool, String) {
    let o = exec::<S>(&w.script, w.cfg, false);
    if w.kind.is_empty() {
        let c = match w.counter.as_str() {
            "r4" => o.world.st.r4,
            "r5" => o.world.st.r5,
            "r6" => o.world.st.r6,
            _ => 0,
        };
        (c > 0 && o.viol.is_none(), format!("counter {}={c}", w.counter))
    } else {
        match o.viol {
            Some(v) => (v.kind == w.kind, format!("{}: {}", v.kind, v.detail.lines().next().unwrap_or(""))),
            None => (false, "no violation".into()),
        }
    }
}

impl Known {
    pub fn load(dir: &str) -> Known {
        let path = format!("{dir}/known_findings.json");
        let Ok(txt) = std::fs::read_to_string(&path) else { return Known::default() };
        let v: serde_json::Value = serde_json::from_str(&txt).expect("known_findings.json does not parse");
        let entries: Vec<Entry> = serde_json::from_value(v["findings"].clone()).expect("known_findings.json: bad findings list");
        // every listed finding starts as a candidate so that per-event attribution is available while
        // the witnesses themselves are replayed; the real alive set is installed afterwards
        crate::taint::set_active(entries.iter().filter(|e| e.status == "known").map(|e| e.id.clone()).collect());
        let mut witnesses = vec![];
        for e in &entries {
            for wf in &e.witnesses {
                let wtxt = std::fs::read_to_string(format!("{dir}/{wf}")).unwrap_or_else(|_| panic!("missing witness file {wf}"));
                let w: Witness = serde_json::from_str(&wtxt).unwrap_or_else(|err| panic!("witness {wf}: {err}"));
                let (fails, _) = dispatch!(w.sut.as_str(), replay_one, &w);
                witnesses.push((e.id.clone(), w, fails));
            }
        }
        Known { entries, witnesses }
    }
    /// ids of findings (status known) with at least one witness that still fails
    pub fn alive(&self) -> BTreeSet<String> {
        self.entries.iter().filter(|e| e.status == "known" && self.witnesses.iter().any(|(id, _, f)| id == &e.id && *f)).map(|e| e.id.clone()).collect()
    }
    pub fn active_for(&self, _prop: &str) -> BTreeSet<String> {
        self.alive()
    }
}

/// KNOWN-FINDING lines for the pinned witnesses of this property that still fail
pub fn replay_pinned(prop: &str, known: &Known) -> Vec<String> {
    let mut out = vec![];
    for (id, w, fails) in &known.witnesses {
        let status = known.entries.iter().find(|e| &e.id == id).map(|e| e.status.clone()).unwrap_or_default();
        if w.property != prop {
            continue;
        }
        if status == "known" && *fails {
            out.push(format!("KNOWN-FINDING: property={prop} {id} [{}] {}", w.sut, w.what));
        }
    }
    out
}

/// (violation kind, detail, known finding that explains it on this history if any), event log
fn replay_log<S: Sut>(script: &[Act], cfg: Cfg) -> (Option<(String, String, Option<String>)>, Vec<String>) {
    let o = exec::<S>(script, cfg, false);
    let v = o.viol.as_ref().map(|v| {
        let t = crate::campaign::taints_of(&o.world, &cfg, 0);
        let why = crate::taint::explains(v.kind, &t, S::IS_MAP).map(|s| format!("{s} (triggers on this history: {t:?})"));
        (v.kind.to_string(), v.detail.clone(), why)
    });
    (v, o.world.log)
}
pub fn replay_script(sut: &str, script: &[Act], cfg: Cfg) -> (Option<(String, String, Option<String>)>, Vec<String>) {
    dispatch!(sut, replay_log, script, cfg)
}

/// dev helper: `crdtmon pin <finding-json-file> <id> <property> <out-file> <counter|-> <what...>`
pub fn pin(args: &[String], verif: &str) {
    let txt = std::fs::read_to_string(&args[0]).expect("read");
    let v: serde_json::Value = serde_json::from_str(&txt).unwrap();
    let f = if v.get("finding").is_some() { v["finding"].clone() } else { v };
    let counter = if args[4] == "-" { String::new() } else { args[4].clone() };
    let w = Witness {
        property: args[2].clone(),
        sut: f["sut"].as_str().unwrap().to_string(),
        cfg: serde_json::from_value(f["cfg"].clone()).unwrap(),
        script: serde_json::from_value(f["script"].clone()).unwrap(),
        kind: if counter.is_empty() { f["kind"].as_str().unwrap().to_string() } else { String::new() },
        counter,
        what: args[5..].join(" "),
    };
    let (fails, how) = dispatch!(w.sut.as_str(), replay_one, &w);
    println!("witness for {} fails={fails} ({how})", args[1]);
    std::fs::write(format!("{verif}/{}", args[3]), serde_json::to_string_pretty(&w).unwrap()).unwrap();
}
