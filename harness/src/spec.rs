//! Declarative reference models spec(K): pure functions from the set of facts in a knowledge set
//! to the expected observation. They never replay ops in some order.
use crate::dump::Dump;
use crate::sut::*;
use std::collections::{BTreeMap, BTreeSet};

pub fn is_prefix(p: &[u8], q: &[u8]) -> bool {
    p.len() <= q.len() && &q[..p.len()] == p
}

/// members (with witnesses) of the observed-remove set at `path`
pub fn set_at(facts: &[(usize, Fact)], path: &[u8]) -> BTreeMap<u8, Clk> {
    let key_rms: Vec<&Clk> = facts
        .iter()
        .filter_map(|(_, f)| match f {
            Fact::Rm { ctx, path: p, .. } if is_prefix(p, path) => Some(ctx),
            _ => None,
        })
        .collect();
    let set_rms: Vec<(&Clk, &Vec<u8>)> = facts
        .iter()
        .filter_map(|(_, f)| match f {
            Fact::Up { path: p, leaf: Leaf::SetRm(c, ms), .. } if p == path => Some((c, ms)),
            _ => None,
        })
        .collect();
    let mut out: BTreeMap<u8, Clk> = BTreeMap::new();
    for (_, f) in facts {
        if let Fact::Up { dot, path: p, leaf: Leaf::Add(ms) } = f {
            if p != path || key_rms.iter().any(|c| cov(c, *dot)) {
                continue;
            }
            for m in ms {
                if !set_rms.iter().any(|(c, rms)| rms.contains(m) && cov(c, *dot)) {
                    cjoin(out.entry(*m).or_default(), *dot);
                }
            }
        }
    }
    out
}

/// values shown by the register at `path` (multiset, sorted)
pub fn reg_at(inp: &SpecIn, path: &[u8]) -> Vec<u32> {
    let facts = inp.facts;
    let key_rms: Vec<&Clk> = facts
        .iter()
        .filter_map(|(_, f)| match f {
            Fact::Rm { ctx, path: p, .. } if is_prefix(p, path) => Some(ctx),
            _ => None,
        })
        .collect();
    let puts: Vec<(usize, DotT, u32)> = facts
        .iter()
        .filter_map(|(id, f)| match f {
            Fact::Up { dot, path: p, leaf: Leaf::Put(_, v) } if p == path => Some((*id, *dot, *v)),
            _ => None,
        })
        .collect();
    let mut vals = vec![];
    for (i, dot, v) in puts.iter() {
        if key_rms.iter().any(|c| cov(c, *dot)) {
            continue;
        }
        if puts.iter().any(|(j, _, _)| j != i && (inp.past)(*i, *j)) {
            continue;
        }
        vals.push(*v);
    }
    vals.sort();
    vals
}

/// (reads, witnesses per key, nested contexts) of the map level at `path`
fn level(inp: &SpecIn, path: &[u8], depth: usize, leaf_is_reg: bool) -> (Dump, Dump, Dump) {
    let facts = inp.facts;
    if path.len() == depth {
        if leaf_is_reg {
            let vals = reg_at(inp, path);
            return (Dump::Seq(vals.into_iter().map(|v| Dump::u(v as u64)).collect()), Dump::Unit, Dump::Unit);
        } else {
            let s = set_at(facts, path);
            let reads = Dump::Seq(s.keys().map(|m| Dump::u(*m as u64)).collect());
            let w = Dump::Map(s.iter().map(|(m, c)| (Dump::u(*m as u64), Dump::clk(c))).collect());
            return (reads, w, Dump::Unit);
        }
    }
    let mut keys: BTreeSet<u8> = BTreeSet::new();
    for (_, f) in facts {
        if let Fact::Up { path: p, .. } = f {
            if p.len() > path.len() && is_prefix(path, p) {
                keys.insert(p[path.len()]);
            }
        }
    }
    let mut reads = vec![];
    let mut wit = vec![];
    let mut nested = vec![];
    for k in keys {
        let mut kp = path.to_vec();
        kp.push(k);
        let rms: Vec<&Clk> = facts
            .iter()
            .filter_map(|(_, f)| match f {
                Fact::Rm { ctx, path: p, .. } if is_prefix(p, &kp) => Some(ctx),
                _ => None,
            })
            .collect();
        let mut witness = Clk::new();
        for (_, f) in facts {
            if let Fact::Up { dot, path: p, .. } = f {
                if is_prefix(&kp, p) && !rms.iter().any(|c| cov(c, *dot)) {
                    cjoin(&mut witness, *dot);
                }
            }
        }
        if witness.is_empty() {
            continue;
        }
        let (r, w, n) = level(inp, &kp, depth, leaf_is_reg);
        reads.push((Dump::u(k as u64), r));
        wit.push((Dump::u(k as u64), Dump::clk(&witness)));
        nested.push((Dump::u(k as u64), Dump::rec(vec![("w", w), ("nested", n)])));
    }
    (Dump::Map(reads), Dump::Map(wit), Dump::Map(nested))
}

pub fn top_clock(facts: &[(usize, Fact)]) -> Clk {
    let mut c = Clk::new();
    for (_, f) in facts {
        if let Fact::Up { dot, .. } = f {
            cjoin(&mut c, *dot);
        }
    }
    c
}

/// Map of nesting `depth` (>= 1) whose leaves are Orswots or MVRegs; depth 0 + !leaf_is_reg = a top-level Orswot
pub fn map_spec(inp: &SpecIn, depth: usize, leaf_is_reg: bool) -> Obs {
    let (reads, w, nested) = level(inp, &[], depth, leaf_is_reg);
    // only add-carrying updates advance a top-level Orswot's clock; every Up advances a Map's clock
    let mut add = inp.base.clone();
    for (_, f) in inp.facts {
        match f {
            Fact::Up { dot, leaf, .. } => {
                if depth > 0 || matches!(leaf, Leaf::Add(_)) {
                    cjoin(&mut add, *dot);
                }
            }
            _ => {}
        }
    }
    Obs { reads, ctx: Dump::rec(vec![("add", Dump::clk(&add)), ("w", w), ("nested", nested)]), incoherent: None }
}

/// clock the write with op id `w` must carry: own dot joined with everything in its read-from closure
pub fn mv_clock(all: &[(usize, Fact)], past: &dyn Fn(usize, usize) -> bool, w: usize) -> Clk {
    let mut c = Clk::new();
    for (id, f) in all {
        if let Fact::MvPut { actor, idx, .. } = f {
            if *id == w || past(*id, w) {
                cjoin(&mut c, (*actor, *idx));
            }
        }
    }
    c
}

pub fn mv_spec(inp: &SpecIn) -> Obs {
    let all = inp.all;
    let puts: Vec<(usize, u32)> = inp
        .facts
        .iter()
        .filter_map(|(id, f)| match f {
            Fact::MvPut { val, .. } => Some((*id, *val)),
            _ => None,
        })
        .collect();
    let mut vals = vec![];
    let mut clock = Clk::new();
    for (i, v) in &puts {
        if puts.iter().any(|(j, _)| j != i && (inp.past)(*i, *j)) {
            continue;
        }
        vals.push(*v);
        cjoin_all(&mut clock, &mv_clock(all, inp.past, *i));
    }
    vals.sort();
    Obs { reads: Dump::Seq(vals.into_iter().map(|v| Dump::u(v as u64)).collect()), ctx: Dump::clk(&clock), incoherent: None }
}
