//! Engine E1: a simulated replicated system driven through the public API, with an event log,
//! harness-side shadow state (knowledge sets) and the online monitors.
use crate::dump::{dump_norm as dump, Dump};
use crate::rng::mix;
use crate::sut::*;
use serde::{Deserialize, Serialize};
use std::collections::{BTreeMap, HashMap};

pub mod mon {
    pub const SPEC: u32 = 1 << 0; // reads == spec(K)
    pub const CONV: u32 = 1 << 1; // equal K => equal observation (reads + contexts)
    pub const EQ: u32 = 1 << 2; // equal K => `==`
    pub const RESIDUE: u32 = 1 << 3; // closed K => no tombstones, canonical state
    pub const DUP: u32 = 1 << 4; // re-applying a known op changes nothing
    pub const STALE: u32 = 1 << 5; // merging a subsumed state changes nothing
    pub const CTX: u32 = 1 << 6; // read contexts exact, derived dots fresh
    pub const VOP: u32 = 1 << 7; // validate_op
    pub const VMERGE: u32 = 1 << 8; // validate_merge
    pub const SERDE: u32 = 1 << 9; // round trips + shadow replicas
    pub const SEQ: u32 = 1 << 10; // Vec model for local list edits
    pub const ORDER: u32 = 1 << 11; // one global element order (List/GList)
    pub const MONO: u32 = 1 << 12; // GCounter reads never decrease
    pub const STRUCT: u32 = 1 << 13; // DUP/STALE also compare `==`/dump (structural sub-kind)
    pub const LAWS: u32 = 1 << 14; // merge laws on the pool (Law acts)
    pub const HYBRID: u32 = 1 << 15; // merge(a,b) vs op delivery of Ka|Kb
}

#[derive(Clone, Copy, Debug, Serialize, Deserialize, PartialEq)]
pub struct Cfg {
    pub nrep: usize,
    /// extra replicas that never author ops (observers for the consistent-cut sweep)
    pub nobs: usize,
    pub nsteps: usize,
    pub delivery: Delivery,
    pub merges: bool,
    pub dups: bool,
    pub stale_merges: bool,
    pub shadows: bool,
    pub misuse: bool,
    pub equal_vals: bool,
    /// check spec / tables at every knowledge set, not only at causally closed ones
    pub anyk: bool,
    pub mon: u32,
    pub laws: usize,
    pub policy: u8,
}
impl Cfg {
    pub fn base(nrep: usize, nsteps: usize, delivery: Delivery, monitors: u32) -> Cfg {
        Cfg { nrep, nobs: 0, nsteps, delivery, merges: false, dups: false, stale_merges: false, shadows: false, misuse: false, equal_vals: false, anyk: false, mon: monitors, laws: 0, policy: 0 }
    }
    pub fn has(&self, m: u32) -> bool {
        self.mon & m != 0
    }
}

#[derive(Clone, Debug, Serialize, Deserialize, PartialEq)]
pub enum Act {
    /// replica r (through `actor`, normally r) generates an op from its current state and applies it
    Gen { r: usize, actor: u8, cmd: Cmd, old: usize },
    /// deliver (or re-deliver, if already known) op (author, seq) to r
    Deliver { r: usize, author: usize, seq: usize },
    Merge { r: usize, s: usize },
    /// merge pool entry `p` (an older recorded state) into r
    MergePool { r: usize, p: usize },
    /// observer replica r starts again from the empty state under discipline `disc`
    Reset { r: usize, disc: Delivery },
    /// start a serde-restored shadow of replica r
    Shadow { r: usize },
    /// first action of a history: all replicas (and every later observer) start from `S::aged(base)`
    Age { base: Vec<(u8, u64)> },
    Law { kind: u8, i: usize, j: usize, k: usize },
}

#[derive(Debug, Clone, PartialEq)]
pub struct Viol {
    pub kind: &'static str,
    pub detail: String,
    /// knowledge set the violation is about (for taint evaluation restricted to K)
    pub k: Bits,
}

pub struct Seen<S> {
    pub obs: Obs,
    pub state: S,
    pub step: usize,
    pub order_hash: u64,
    pub orders: u32,
}

#[derive(Default, Clone, Debug)]
pub struct HStats {
    pub evals: BTreeMap<&'static str, u64>,
    pub cuts: u64,
    pub cuts_multi: u64,
    pub noncausal_closed: u64,
    pub pending_created: u64,
    pub pending_discharged: u64,
    pub dup_probes_removed_adds: u64,
    pub r5: u64,
    pub r4: u64,
    pub r6: u64,
    pub gens: u64,
    pub delivers: u64,
    pub redelivers: u64,
    pub merges: u64,
    pub stale_merges: u64,
    pub shadows: u64,
    pub misuse_flagged: u64,
    pub misuse_clean: u64,
    pub incomparable_triples: u64,
}
impl HStats {
    pub fn ev(&mut self, k: &'static str) {
        *self.evals.entry(k).or_default() += 1;
    }
    pub fn add(&mut self, o: &HStats) {
        for (k, v) in &o.evals {
            *self.evals.entry(k).or_default() += v;
        }
        self.cuts += o.cuts;
        self.cuts_multi += o.cuts_multi;
        self.noncausal_closed += o.noncausal_closed;
        self.pending_created += o.pending_created;
        self.pending_discharged += o.pending_discharged;
        self.dup_probes_removed_adds += o.dup_probes_removed_adds;
        self.r5 += o.r5;
        self.r4 += o.r4;
        self.r6 += o.r6;
        self.gens += o.gens;
        self.delivers += o.delivers;
        self.redelivers += o.redelivers;
        self.merges += o.merges;
        self.stale_merges += o.stale_merges;
        self.shadows += o.shadows;
        self.misuse_flagged += o.misuse_flagged;
        self.misuse_clean += o.misuse_clean;
        self.incomparable_triples += o.incomparable_triples;
    }
}

pub struct World<S: Sut> {
    pub cfg: Cfg,
    pub reps: Vec<S>,
    pub know: Vec<Bits>,
    pub disc: Vec<Delivery>,
    pub order_hash: Vec<u64>,
    /// this replica's current state was reached through at least one non-causal delivery
    pub noncausal: Vec<bool>,
    /// some delivery of this history overtook a causal dependency
    pub ever_noncausal: bool,
    /// the schedule-level R7 trigger (taint::r7_state) held at some replica at some step of this history
    pub t7_fired: bool,
    /// the schedule-level R2 trigger (taint::r2_merge) held for some merge evaluated in this history
    pub t2_fired: bool,
    /// schedule-level part of the R1 trigger (taint::r1_state)
    pub t1_fired: bool,
    pub past: Vec<Vec<S>>,
    /// actor identity each replica edits through (learned from the script's Gen actions)
    pub actors: Vec<Option<u8>>,
    pub ops: Vec<S::Op>,
    pub descs: Vec<String>,
    pub author: Vec<usize>,
    pub seqs: Vec<usize>,
    pub deps: Vec<Bits>,
    pub rfc: Vec<Bits>,
    pub facts: Vec<(usize, Fact)>,
    pub want_dot: Vec<Option<DotT>>,
    pub val_op: HashMap<u32, usize>,
    pub sh: Shadow,
    pub log: Vec<String>,
    pub seen: HashMap<Bits, Seen<S>>,
    pub pool: Vec<(S, Bits)>,
    pub shadows: Vec<(usize, S)>,
    pub merged: bool,
    pub st: HStats,
    pub order_edges: HashMap<(u32, u32), (bool, usize)>,
    pub elem_ids: HashMap<u32, Dump>,
    pub last_count: Vec<Option<u128>>,
    pub pending_prev: Vec<usize>,
    pub quiet: bool,
    /// initial state of every replica and its clock (Act::Age)
    pub init: S,
    pub base: Clk,
}

/// `a != b` through the crate's own `==`, which may panic (MVReg::eq has a sanity assertion): a panic counts as
/// "differs" for the structural monitors; the `==` panic itself is reported by the C20 monitor
pub fn differs<S: PartialEq>(a: &S, b: &S) -> bool {
    std::panic::catch_unwind(std::panic::AssertUnwindSafe(|| a != b)).unwrap_or(true)
}
/// `a != b` where a panicking `==` is *not* counted (properties that are not about `==`)
pub fn differs_lenient<S: PartialEq>(a: &S, b: &S) -> bool {
    std::panic::catch_unwind(std::panic::AssertUnwindSafe(|| a != b)).unwrap_or(false)
}

/// number of pending (deferred) removes anywhere in a dumped state
pub fn pending_count(d: &Dump) -> usize {
    match d {
        Dump::Struct(_, fs) => fs.iter().map(|(k, v)| if *k == "deferred" { v.as_map().len() + v.as_map().iter().map(|(_, x)| pending_count(x)).sum::<usize>() } else { pending_count(v) }).sum(),
        Dump::Seq(v) => v.iter().map(pending_count).sum(),
        Dump::Map(v) => v.iter().map(|(_, x)| pending_count(x)).sum(),
        Dump::Variant(_, _, x) | Dump::Some(x) => pending_count(x),
        _ => 0,
    }
}

impl<S: Sut> World<S> {
    pub fn new(cfg: Cfg) -> Self {
        let n = cfg.nrep + cfg.nobs;
        let mut sh = Shadow::default();
        sh.misuse = cfg.misuse;
        sh.equal_vals = cfg.equal_vals;
        World {
            cfg,
            reps: (0..n).map(|_| S::new()).collect(),
            know: vec![0; n],
            disc: vec![cfg.delivery; n],
            order_hash: vec![0; n],
            noncausal: vec![false; n],
            ever_noncausal: false,
            t7_fired: false,
            t2_fired: false,
            t1_fired: false,
            past: (0..n).map(|_| vec![S::new()]).collect(),
            actors: vec![None; n],
            ops: vec![],
            descs: vec![],
            author: vec![],
            seqs: vec![],
            deps: vec![],
            rfc: vec![],
            facts: vec![],
            want_dot: vec![],
            val_op: HashMap::new(),
            sh,
            log: vec![],
            seen: HashMap::new(),
            pool: vec![],
            shadows: vec![],
            merged: false,
            st: HStats::default(),
            order_edges: HashMap::new(),
            elem_ids: HashMap::new(),
            last_count: vec![None; n],
            pending_prev: vec![0; n],
            quiet: false,
            init: S::new(),
            base: Clk::new(),
        }
    }
    pub fn find(&self, author: usize, seq: usize) -> Option<usize> {
        (0..self.ops.len()).find(|&i| self.author[i] == author && self.seqs[i] == seq)
    }
    pub fn deliverable_under(&self, d: Delivery, k: Bits, i: usize) -> bool {
        match d {
            Delivery::Causal => self.deps[i] & !k == 0,
            Delivery::Fifo => (0..i).all(|j| self.author[j] != self.author[i] || k >> j & 1 == 1),
            Delivery::Any => true,
        }
    }
    pub fn deliverable(&self, r: usize, i: usize) -> bool {
        self.deliverable_under(self.disc[r], self.know[r], i)
    }
    pub fn closed(&self, k: Bits) -> bool {
        (0..self.ops.len()).all(|i| k >> i & 1 == 0 || self.deps[i] & !k == 0)
    }
    pub fn facts_of(&self, k: Bits) -> Vec<(usize, Fact)> {
        self.facts.iter().filter(|(i, _)| k >> i & 1 == 1).cloned().collect()
    }
    pub fn spec_of(&self, k: Bits) -> Obs {
        let facts = self.facts_of(k);
        let rfc = &self.rfc;
        let past = |i: usize, j: usize| -> bool { rfc[j] >> i & 1 == 1 };
        S::spec(&SpecIn { facts: &facts, all: &self.facts, past: &past, base: &self.base })
    }
    /// record that a merge of states with knowledge sets kx and ky is being evaluated
    fn note_merge(&mut self, kx: Bits, ky: Bits) {
        if S::IS_MAP && !self.t2_fired && crate::taint::r2_merge(&self.facts, kx, ky) {
            self.t2_fired = true;
        }
    }
    fn lg(&mut self, s: String) {
        if !self.quiet {
            self.log.push(s);
        }
    }
    fn v(&self, kind: &'static str, k: Bits, detail: String) -> Viol {
        Viol { kind, detail, k }
    }

    /// execute one action; Ok(false) = precondition failed, action skipped
    pub fn step(&mut self, act: &Act, step: usize) -> Result<bool, Viol> {
        let r = match act {
            Act::Gen { r, actor, cmd, old } => {
                let r = *r;
                if r >= self.cfg.nrep || self.ops.len() >= 120 {
                    return Ok(false);
                }
                let old_state = {
                    let ps = &self.past[r];
                    ps[*old % ps.len()].clone()
                };
                self.sh.next_op_id = self.ops.len();
                if !self.cfg.misuse {
                    self.actors[r] = Some(*actor);
                }
                let sh_backup = self.sh.clone();
                let Some(g) = self.reps[r].gen(*actor, cmd, &mut self.sh, &old_state) else {
                    self.sh = sh_backup;
                    return Ok(false);
                };
                let id = self.ops.len();
                self.st.gens += 1;
                self.lg(format!("{step}: gen r{r} op{id} {}  => {:?}", g.desc, g.op));
                // C07: the derived add context must carry the actor's next unused dot
                if self.cfg.has(mon::CTX) && !self.cfg.misuse {
                    if let (Some(want), Some((dot, cclk, rclk))) = (g.want_dot, &g.derived) {
                        self.st.ev("ctx_derive");
                        let mut exp = rclk.clone();
                        cjoin(&mut exp, want);
                        if *dot != want {
                            return Err(self.v("ctx", self.know[r], format!("derive_add_ctx({actor}) at r{r} gave dot {dot:?}, the actor's next unused dot is {want:?}")));
                        }
                        if *cclk != exp {
                            return Err(self.v("ctx", self.know[r], format!("derive_add_ctx({actor}) clock {cclk:?} != add_clock {rclk:?} joined with {want:?}")));
                        }
                    }
                    // every dot of a remove context must be the dot of an update the reader knows
                    for c in &g.rm_ctxs {
                        self.st.ev("ctx_rm_known");
                        for (a, n) in c {
                            // (or, after an aged start, the actor's last dot of the shared past)
                            let known = (0..id).any(|j| self.know[r] >> j & 1 == 1 && self.want_dot[j] == Some((*a, *n))) || self.base.get(a) == Some(n);
                            if !known {
                                return Err(self.v("ctx", self.know[r], format!("remove context {c:?} read at r{r} names dot ({a},{n}) which is not an update r{r} has applied")));
                            }
                        }
                    }
                }
                if self.cfg.mon & (mon::ORDER | mon::SEQ | mon::VOP | mon::CONV) != 0 && !self.cfg.misuse {
                    if let (Some(od), Some(want)) = (g.op_dot, g.want_dot) {
                        self.st.ev("op_dot");
                        if od != want {
                            return Err(self.v("opdot", self.know[r], format!("r{r}: op {:?} reports dot {od:?}; actor {actor}'s next unused dot is {want:?}", g.op)));
                        }
                    }
                }
                self.deps.push(self.know[r]);
                let mut rf: Bits = 0;
                for v in &g.rf_vals {
                    if let Some(i) = self.val_op.get(v) {
                        rf |= 1 << i;
                    }
                }
                if self.cfg.equal_vals {
                    // equal payloads cannot identify writes; under causal delivery "observed" = known to the author
                    rf = self.know[r];
                }
                let mut rfc = rf;
                for i in 0..id {
                    if rf >> i & 1 == 1 {
                        rfc |= self.rfc[i];
                    }
                }
                self.rfc.push(rfc);
                for f in &g.facts {
                    match f {
                        Fact::Up { leaf: Leaf::Put(_, v), .. } | Fact::MvPut { val: v, .. } => {
                            if !self.cfg.equal_vals {
                                self.val_op.insert(*v, id);
                            }
                        }
                        _ => {}
                    }
                    self.facts.push((id, f.clone()));
                }
                self.seqs.push((0..id).filter(|&j| self.author[j] == r).count());
                self.author.push(r);
                self.want_dot.push(g.want_dot);
                self.descs.push(g.desc.clone());
                self.ops.push(g.op.clone());
                if g.jumped {
                    self.st.ev("fast_forward");
                }
                if self.cfg.has(mon::VOP) && !self.cfg.misuse && !g.jumped {
                    // an op is always valid at its own origin
                    self.st.ev("vop_origin");
                    if let Err(e) = self.reps[r].validate_op_s(&g.op) {
                        self.vop_fail(r, id, true, Err(e), step)?;
                    }
                }
                self.reps[r].apply_op(g.op.clone());
                self.know[r] |= 1 << id;
                self.order_hash[r] = mix(self.order_hash[r], id as u64 + 1);
                self.shadow_apply_op(r, id)?;
                if self.cfg.has(mon::SEQ) {
                    if let Some(exp) = &g.expect_seq {
                        self.st.ev("seq_model");
                        let got = self.reps[r].observe();
                        let seq: Vec<u32> = got.reads.field("seq").map(|d| d.as_seq().iter().filter_map(|x| x.as_u().map(|u| u as u32)).collect()).unwrap_or_default();
                        if &seq != exp {
                            return Err(self.v("seq", self.know[r], format!("r{r} after {}: sequence {seq:?}, Vec model {exp:?}", g.desc)));
                        }
                    }
                }
                r
            }
            Act::Deliver { r, author, seq } => {
                let r = *r;
                let Some(i) = self.find(*author, *seq) else { return Ok(false) };
                if r >= self.reps.len() {
                    return Ok(false);
                }
                let dup = self.know[r] >> i & 1 == 1;
                if !dup && !self.deliverable(r, i) {
                    return Ok(false);
                }
                if !dup && self.deps[i] & !self.know[r] != 0 {
                    self.noncausal[r] = true;
                    self.ever_noncausal = true;
                }
                if dup {
                    self.st.redelivers += 1
                } else {
                    self.st.delivers += 1
                }
                self.lg(format!("{step}: {} op{i} -> r{r}", if dup { "REdeliver" } else { "deliver" }));
                self.reps[r].apply_op(self.ops[i].clone());
                self.know[r] |= 1 << i;
                if !dup {
                    self.order_hash[r] = mix(self.order_hash[r], i as u64 + 1);
                }
                self.shadow_apply_op(r, i)?;
                r
            }
            Act::Merge { r, s } => {
                if r == s || !S::HAS_MERGE || *r >= self.reps.len() || *s >= self.reps.len() {
                    return Ok(false);
                }
                self.lg(format!("{step}: merge r{r} <- r{s}"));
                self.merged = true;
                self.st.merges += 1;
                let other = self.reps[*s].clone();
                self.note_merge(self.know[*r], self.know[*s]);
                self.shadow_merge(*r, &other)?;
                self.reps[*r].merge_from(other);
                self.know[*r] |= self.know[*s];
                self.order_hash[*r] = mix(self.order_hash[*r], mix(77, self.order_hash[*s]));
                if self.noncausal[*s] {
                    self.noncausal[*r] = true;
                }
                self.shadow_compare(*r)?;
                *r
            }
            Act::MergePool { r, p } => {
                if !S::HAS_MERGE || self.pool.is_empty() || *r >= self.reps.len() {
                    return Ok(false);
                }
                let p = *p % self.pool.len();
                self.lg(format!("{step}: merge r{r} <- pool#{p} (K={:#x})", self.pool[p].1));
                self.merged = true;
                self.st.stale_merges += 1;
                let (other, ko) = self.pool[p].clone();
                self.note_merge(self.know[*r], ko);
                self.shadow_merge(*r, &other)?;
                self.reps[*r].merge_from(other);
                self.know[*r] |= ko;
                self.order_hash[*r] = mix(self.order_hash[*r], mix(78, ko as u64));
                self.shadow_compare(*r)?;
                *r
            }
            Act::Reset { r, disc } => {
                if *r < self.cfg.nrep || *r >= self.reps.len() {
                    return Ok(false);
                }
                self.reps[*r] = self.init.clone();
                self.know[*r] = 0;
                self.disc[*r] = *disc;
                self.order_hash[*r] = 0;
                self.noncausal[*r] = false;
                self.pending_prev[*r] = 0;
                self.last_count[*r] = None;
                self.shadows.retain(|(q, _)| q != r);
                self.lg(format!("{step}: observer r{r} reset, discipline {disc:?}"));
                return Ok(true);
            }
            Act::Age { base } => {
                // only as the very first action, and only for types that model aging
                if !self.ops.is_empty() || !self.base.is_empty() || self.know.iter().any(|k| *k != 0) || base.is_empty() {
                    return Ok(false);
                }
                let Some(s) = S::aged(base) else { return Ok(false) };
                for (a, b) in base {
                    self.base.insert(*a, *b);
                    self.sh.ndots[*a as usize] = *b;
                }
                self.init = s;
                for r in 0..self.reps.len() {
                    self.reps[r] = self.init.clone();
                    self.past[r] = vec![self.init.clone()];
                }
                self.st.ev("aged_start");
                self.lg(format!("{step}: every replica starts from the aged state with clock {:?}", self.base));
                return Ok(true);
            }
            Act::Shadow { r } => {
                if *r >= self.reps.len() {
                    return Ok(false);
                }
                return self.start_shadow(*r, step);
            }
            Act::Law { kind, i, j, k } => {
                return self.law(*kind, *i, *j, *k, step);
            }
        };
        self.after(r, step)?;
        Ok(true)
    }

    // ------------------------------------------------------------------ monitors
    fn should_check(&self, r: usize) -> bool {
        // a state is specified if it was produced under a discipline at least as strong as the type's contract
        let ok_disc = match (S::WEAKEST, self.disc[r]) {
            (Delivery::Any, _) => true,
            (Delivery::Fifo, Delivery::Any) => false,
            (Delivery::Fifo, _) => true,
            (Delivery::Causal, Delivery::Causal) => true,
            (Delivery::Causal, _) => false,
        };
        ok_disc && ((self.cfg.anyk && S::ANYK_OK) || self.closed(self.know[r]))
    }

    fn after(&mut self, r: usize, step: usize) -> Result<(), Viol> {
        if self.past[r].len() < 12 {
            let st = self.reps[r].clone();
            self.past[r].push(st);
        }
        let k = self.know[r];
        let cfg = self.cfg;
        if S::IS_MAP && !S::ANYK_OK && !self.t1_fired && self.ever_noncausal {
            let kf = self.facts_of(k);
            if crate::taint::r1_state(&kf, &self.facts, &|id| k >> id & 1 == 1) {
                self.t1_fired = true;
            }
        }
        if S::IS_MAP && !self.t7_fired && self.ever_noncausal {
            let kf = self.facts_of(k);
            if crate::taint::r7_state(&kf, &self.facts, &|id| k >> id & 1 == 1) {
                self.t7_fired = true;
            }
        }
        let need_dump = cfg.has(mon::RESIDUE) || cfg.has(mon::SERDE) || cfg.mon & (mon::CONV | mon::SPEC) != 0;
        let dmp = if need_dump { Some(dump(&self.reps[r])) } else { None };
        if let Some(d) = &dmp {
            let p = pending_count(d);
            if p > self.pending_prev[r] {
                self.st.pending_created += (p - self.pending_prev[r]) as u64;
            } else {
                self.st.pending_discharged += (self.pending_prev[r] - p) as u64;
            }
            self.pending_prev[r] = p;
        }
        let obs = self.reps[r].observe();
        if cfg.mon != 0 {
            if let Some(why) = &obs.incoherent {
                return Err(self.v("coherence", k, format!("r{r}: {why}; {}", obs.show())));
            }
        }
        if cfg.misuse {
            // under deliberate misuse only the validation monitors are meaningful
            if cfg.has(mon::VMERGE) {
                self.vmerge_probe(r, step)?;
            }
            if cfg.has(mon::VOP) {
                self.vop_probe(r, step)?;
            }
            return Ok(());
        }
        let check = self.should_check(r);
        let mut sp: Option<Obs> = None;
        if check && cfg.mon & (mon::SPEC | mon::CTX | mon::RESIDUE) != 0 {
            sp = Some(self.spec_of(k));
        }
        if cfg.has(mon::SPEC) && check {
            self.st.ev("spec");
            let sp = sp.as_ref().unwrap();
            if !S::reads_match(&obs, sp) {
                return Err(self.v("spec", k, format!("r{r} reads {}\n      model {}", obs.reads.show(), sp.reads.show())));
            }
            if self.noncausal[r] && self.closed(k) {
                self.st.noncausal_closed += 1;
            }
        }
        if cfg.has(mon::MONO) && S::NAME == "GC" {
            if let Dump::Str(s) = &obs.reads {
                if let Ok(v) = s.parse::<u128>() {
                    self.st.ev("mono");
                    if let Some(prev) = self.last_count[r] {
                        if v < prev {
                            return Err(self.v("mono", k, format!("r{r} counter read went from {prev} to {v}")));
                        }
                    }
                    self.last_count[r] = Some(v);
                }
            }
        }
        if cfg.has(mon::CTX) && check {
            self.ctx_check(r, &obs, sp.as_ref().unwrap())?;
        }
        if cfg.mon & (mon::CONV | mon::EQ) != 0 && check {
            self.st.ev("table");
            let oh = self.order_hash[r];
            if let Some(e) = self.seen.get_mut(&k) {
                if e.order_hash != oh {
                    if e.orders == 1 {
                        self.st.cuts_multi += 1;
                    }
                    e.orders += 1;
                    e.order_hash = oh;
                }
                if cfg.has(mon::CONV) && e.obs != obs {
                    let d = format!("same knowledge {k:#x}, different observation:\n   r{r} (step {step}): {}\n   earlier (step {}): {}", obs.show(), e.step, e.obs.show());
                    return Err(self.v("conv", k, d));
                }
                if cfg.has(mon::EQ) {
                    self.st.ev("eq");
                    let same = std::panic::catch_unwind(std::panic::AssertUnwindSafe(|| e.state == self.reps[r]));
                    match same {
                        Ok(true) => {}
                        Ok(false) => {
                            let d = format!("same knowledge {k:#x} but states differ under ==:\n   r{r} (step {step}): {}\n   earlier (step {}): {}", dump(&self.reps[r]).show(), e.step, dump(&e.state).show());
                            return Err(self.v("eq", k, d));
                        }
                        Err(_) => return Err(self.v("eq", k, format!("`==` panicked comparing states with knowledge {k:#x}"))),
                    }
                }
            } else {
                if cfg.has(mon::EQ) {
                    // `==` is the convergence criterion: it must be symmetric and must not equate states
                    // that read differently (a too-permissive `==` would make every convergence check vacuous)
                    if let Some((k2, e2)) = self.seen.iter().find(|(_, e2)| e2.obs.reads != obs.reads) {
                        self.st.ev("eq_sound");
                        let ab = std::panic::catch_unwind(std::panic::AssertUnwindSafe(|| e2.state == self.reps[r])).unwrap_or(false);
                        let ba = std::panic::catch_unwind(std::panic::AssertUnwindSafe(|| self.reps[r] == e2.state)).unwrap_or(false);
                        if ab || ba {
                            let d = format!("`==` holds (a==b: {ab}, b==a: {ba}) between states that read differently:\n   r{r} K={k:#x}: {}\n   K={:#x}: {}", dump(&self.reps[r]).show(), k2, dump(&e2.state).show());
                            return Err(self.v("eqsound", k, d));
                        }
                    }
                }
                self.st.cuts += 1;
                self.seen.insert(k, Seen { obs: obs.clone(), state: self.reps[r].clone(), step, order_hash: oh, orders: 1 });
            }
        }
        if cfg.has(mon::RESIDUE) && self.closed(k) && check {
            self.residue_check(r, dmp.as_ref().unwrap(), sp.as_ref().unwrap())?;
        }
        if cfg.has(mon::ORDER) {
            self.order_check(r, &obs, step)?;
        }
        if cfg.has(mon::DUP) {
            self.dup_probe(r, &obs, step)?;
        }
        if cfg.has(mon::STALE) && S::HAS_MERGE {
            self.stale_probe(r, &obs, step)?;
        }
        if cfg.has(mon::VOP) {
            self.vop_probe(r, step)?;
        }
        if cfg.has(mon::VMERGE) && S::HAS_MERGE {
            self.vmerge_probe(r, step)?;
        }
        if cfg.has(mon::SERDE) {
            self.serde_probe(r, dmp.as_ref().unwrap(), step)?;
        }
        if self.pool.len() < 64 && cfg.mon & (mon::STALE | mon::LAWS | mon::HYBRID) != 0 || cfg.stale_merges && self.pool.len() < 64 {
            let st = self.reps[r].clone();
            self.pool.push((st, k));
        }
        Ok(())
    }

    fn ctx_check(&mut self, r: usize, obs: &Obs, sp: &Obs) -> Result<(), Viol> {
        let k = self.know[r];
        self.st.ev("ctx_read");
        if S::NAME == "MV" {
            if obs.ctx != sp.ctx {
                return Err(self.v("ctx", k, format!("r{r} MVReg read context {} but the shown writes carry {}", obs.ctx.show(), sp.ctx.show())));
            }
        } else if let (Some(add), Some(sadd)) = (obs.ctx.field("add"), sp.ctx.field("add")) {
            if add != sadd {
                return Err(self.v("ctx", k, format!("r{r} add_clock {} but the applied updates are {}", add.show(), sadd.show())));
            }
            if obs.ctx.field("w") != sp.ctx.field("w") {
                return Err(self.v("ctx", k, format!("r{r} element remove contexts {} but surviving witnesses are {}", obs.ctx.field("w").unwrap().show(), sp.ctx.field("w").unwrap().show())));
            }
            // whole-structure remove context: covers every surviving witness, never exceeds the add context
            if let Some(rm_all) = obs.ctx.field("rm_all") {
                let rm = rm_all.as_clk();
                let addc = add.as_clk();
                let mut need = Clk::new();
                for (_, w) in obs.ctx.field("w").unwrap().as_map() {
                    cjoin_all(&mut need, &w.as_clk());
                }
                if !cle(&rm, &addc) || !cle(&need, &rm) {
                    return Err(self.v("ctx", k, format!("r{r} whole-structure rm_clock {rm:?} not between witnesses {need:?} and add_clock {addc:?}")));
                }
            }
            for (_, w) in obs.ctx.field("w").unwrap().as_map() {
                if !cle(&w.as_clk(), &add.as_clk()) || w.as_clk().is_empty() {
                    return Err(self.v("ctx", k, format!("r{r} element rm_clock {} empty or exceeds add_clock {}", w.show(), add.show())));
                }
            }
        }
        // a context derived for *any* actor carries the dot right after what the read has seen of that actor
        for a in [0u8, 1, 2, 3, 200] {
            if let Some((dot, cclk, rclk)) = self.reps[r].next_dot(a) {
                self.st.ev("ctx_derive_any");
                let mut exp = rclk.clone();
                cjoin(&mut exp, dot);
                if dot != (a, cget(&rclk, a) + 1) || cclk != exp {
                    return Err(self.v("ctx", k, format!("r{r}: derive_add_ctx({a}) from add_clock {rclk:?} gave dot {dot:?} and clock {cclk:?}")));
                }
            }
        }
        // a context derived now for the replica's own actor must carry its next unused dot
        if let Some(me) = self.actors.get(r).cloned().flatten() {
            if let Some((dot, cclk, rclk)) = self.reps[r].next_dot(me) {
                self.st.ev("ctx_next_dot");
                let idx = if S::NAME == "MV" { self.sh.nwrites[me as usize] } else { self.sh.ndots[me as usize] };
                if dot != (me, idx + 1) {
                    return Err(self.v("ctx", k, format!("r{r}: derive_add_ctx({me}) would hand out dot {dot:?}; actor {me} has issued {idx} dots")));
                }
                let mut exp = rclk.clone();
                cjoin(&mut exp, dot);
                if cclk != exp {
                    return Err(self.v("ctx", k, format!("r{r}: derived clock {cclk:?} != {exp:?}")));
                }
                if self.want_dot.iter().any(|d| *d == Some(dot)) {
                    return Err(self.v("ctx", k, format!("r{r}: derived dot {dot:?} was already carried by an earlier op")));
                }
            }
        }
        Ok(())
    }

    fn order_check(&mut self, r: usize, obs: &Obs, step: usize) -> Result<(), Viol> {
        let k = self.know[r];
        let Some(seqd) = obs.reads.field("seq") else { return Ok(()) };
        let seq: Vec<u32> = seqd.as_seq().iter().filter_map(|x| x.as_u().map(|u| u as u32)).collect();
        self.st.ev("order");
        let mut sorted = seq.clone();
        sorted.sort();
        sorted.dedup();
        if sorted.len() != seq.len() {
            return Err(self.v("order", k, format!("r{r}: an element appears twice in {seq:?}")));
        }
        // relative position of any two elements never changes (=> union of all observed sequences is acyclic)
        for i in 0..seq.len() {
            for j in i + 1..seq.len() {
                let (a, b) = (seq[i], seq[j]);
                let key = (a.min(b), a.max(b));
                let dir = a < b;
                match self.order_edges.get(&key) {
                    Some((d, st0)) if *d != dir => {
                        let st0 = *st0;
                        return Err(self.v("order", k, format!("elements {a} and {b} are ordered differently at r{r} step {step} ({seq:?}) and at step {st0}")));
                    }
                    Some(_) => {}
                    None => {
                        self.order_edges.insert(key, (dir, step));
                    }
                }
            }
        }
        // an element's identifier never changes
        if let Some(ids) = obs.reads.field("ids") {
            for (e, id) in seq.iter().zip(ids.as_seq()) {
                match self.elem_ids.get(e) {
                    Some(old) if old != id => return Err(self.v("order", k, format!("element {e} changed identifier: {} -> {}", old.show(), id.show()))),
                    Some(_) => {}
                    None => {
                        self.elem_ids.insert(*e, id.clone());
                    }
                }
            }
        }
        Ok(())
    }

    fn dup_probe(&mut self, r: usize, obs: &Obs, step: usize) -> Result<(), Viol> {
        let k = self.know[r];
        let known: Vec<usize> = (0..self.ops.len()).filter(|&i| k >> i & 1 == 1).collect();
        if known.is_empty() {
            return Ok(());
        }
        // two probes per step: one arbitrary known op, one biased to the oldest ops (late re-delivery)
        let picks = [known[(mix(step as u64, 3) as usize) % known.len()], known[(mix(step as u64, 5) as usize) % known.len().min(3)]];
        for j in picks {
            self.st.ev("dup");
            let mut c = self.reps[r].clone();
            c.apply_op(self.ops[j].clone());
            let o2 = c.observe();
            if o2 != *obs {
                return Err(self.v("dup", k, format!("r{r}: re-applying known op{j} ({}) changed reads:\n   before {}\n   after  {}", self.descs[j], obs.show(), o2.show())));
            }
            if self.cfg.has(mon::STRUCT) && differs(&c, &self.reps[r]) {
                return Err(self.v("dupeq", k, format!("r{r}: re-applying known op{j} ({}) changed the state structurally:\n   before {}\n   after  {}", self.descs[j], dump(&self.reps[r]).show(), dump(&c).show())));
            }
        }
        Ok(())
    }

    fn stale_probe(&mut self, r: usize, obs: &Obs, step: usize) -> Result<(), Viol> {
        let k = self.know[r];
        let stale: Vec<usize> = (0..self.pool.len()).filter(|&i| self.pool[i].1 & !k == 0).collect();
        if stale.is_empty() {
            return Ok(());
        }
        let picks = [stale[(mix(step as u64, 7) as usize) % stale.len()], stale[(mix(step as u64, 9) as usize) % stale.len().min(4)]];
        for i in picks {
            self.st.ev("stale");
            self.note_merge(k, self.pool[i].1);
            let mut c = self.reps[r].clone();
            c.merge_from(self.pool[i].0.clone());
            let o2 = c.observe();
            if o2 != *obs {
                return Err(self.v("stale", k, format!("r{r}: merging subsumed state pool#{i} (K={:#x}) changed reads:\n   before {}\n   after  {}\n   stale  {}", self.pool[i].1, obs.show(), o2.show(), dump(&self.pool[i].0).show())));
            }
            if self.cfg.has(mon::STRUCT) && differs(&c, &self.reps[r]) {
                return Err(self.v("staleeq", k, format!("r{r}: merging subsumed state pool#{i} changed the state structurally:\n   before {}\n   after  {}", dump(&self.reps[r]).show(), dump(&c).show())));
            }
        }
        Ok(())
    }

    /// expected validate_op verdict, from knowledge sets and harness counters only
    fn vop_expect(&self, k: Bits, j: usize) -> Result<(), String> {
        let facts: Vec<&Fact> = self.facts.iter().filter(|(i, _)| *i == j).map(|(_, f)| f).collect();
        match S::NAME {
            "MK" => {
                // every child must be *visible* (in the DAG), not merely received
                let sp = self.spec_of(k);
                let vis: Vec<String> = sp.reads.field("nodes").map(|n| n.as_map().iter().map(|(h, _)| h.show()).collect()).unwrap_or_default();
                for f in &facts {
                    if let Fact::Node { children, .. } = f {
                        for c in children {
                            let h = self.facts.iter().find_map(|(_, f)| if let Fact::Node { idx, hash, .. } = f { if idx == c { Some(*hash) } else { None } } else { None }).unwrap();
                            let hs = Dump::Str(h[..6].iter().map(|b| format!("{b:02x}")).collect()).show();
                            if !vis.contains(&hs) {
                                return Err("MissingChild".into());
                            }
                        }
                    }
                }
                Ok(())
            }
            "LWW" => {
                let cur = self.spec_of(k);
                for f in &facts {
                    if let Fact::Lww { val, marker } = f {
                        let m = cur.reads.field("marker").unwrap().as_seq();
                        let cm = (m[0].as_u().unwrap() as u64, m[1].as_u().unwrap() as u8);
                        let cv = cur.reads.field("val").unwrap().as_u().unwrap() as u32;
                        if cm == *marker && cv != *val {
                            return Err("ConflictingMarker".into());
                        }
                    }
                }
                Ok(())
            }
            "VC" | "OS" | "LI" | "MO" | "MM" | "MMO" | "MMM" | "MMMO" => {
                let Some(d) = self.want_dot[j] else { return Ok(()) };
                // highest dot of that actor the replica has applied
                let have = (0..self.ops.len()).filter(|&i| k >> i & 1 == 1).filter_map(|i| self.want_dot[i]).filter(|x| x.0 == d.0).map(|x| x.1).max().unwrap_or(0).max(cget(&self.base, d.0));
                if d.1 <= have + 1 {
                    Ok(())
                } else {
                    Err(format!("DotRange {{ actor: {}, counter_range: {}..{} }}", d.0, have + 1, d.1))
                }
            }
            _ => Ok(()),
        }
    }

    fn vop_fail(&mut self, r: usize, j: usize, at_origin: bool, got: Result<(), String>, _step: usize) -> Result<(), Viol> {
        let k = self.know[r];
        // R4 (known finding), exact per-event attribution: a Map rejects an op the *map clock* admits
        // because the nested value checks the dot against its own (non-contiguous) clock.
        if S::IS_MAP && S::NAME != "MM" && crate::taint::is_active("R4") {
            if let Err(e) = &got {
                if e.starts_with("Value(") && self.r4_nested_explains(r, j) {
                    self.st.r4 += 1;
                    return Ok(());
                }
            }
        }
        let exp = self.vop_expect(k & !(if at_origin { 1u128 << j } else { 0 }), j);
        Err(self.v("vop", k, format!("r{r}.validate_op(op{j}: {}) = {:?}, expected {:?}{}\n   state {}", self.descs[j], got, exp, if at_origin { " (op at its own origin)" } else { "" }, dump(&self.reps[r]).show())))
    }

    /// does the nested value's own clock (as dumped) lag behind the map clock for the op's actor?
    fn r4_nested_explains(&self, r: usize, j: usize) -> bool {
        let Some(d) = self.want_dot[j] else { return false };
        // find the nested clocks along the op's key path in the dumped state
        let path: Vec<u8> = self.facts.iter().find_map(|(i, f)| if *i == j { if let Fact::Up { path, .. } = f { Some(path.clone()) } else { None } } else { None }).unwrap_or_default();
        let mut cur = dump(&self.reps[r]);
        for key in &path {
            let Some(entries) = cur.field("entries") else { return true };
            let Some((_, e)) = entries.as_map().iter().find(|(kk, _)| kk.as_u() == Some(*key as u128)) else {
                // no entry at this level: nested default value has an empty clock -> gap unless counter == 1
                return d.1 > 1;
            };
            let Some(val) = e.field("val") else { return false };
            if let Some(c) = val.field("clock") {
                if cget(&c.as_clk(), d.0) + 1 < d.1 {
                    return true;
                }
            }
            cur = val.clone();
        }
        false
    }

    fn vop_probe(&mut self, r: usize, step: usize) -> Result<(), Viol> {
        if self.ops.is_empty() {
            return Ok(());
        }
        let k = self.know[r];
        let n = self.ops.len();
        // three probes: any op, an op already known (re-delivery), the newest op (likely out of order)
        let known: Vec<usize> = (0..n).filter(|&i| k >> i & 1 == 1).collect();
        let mut picks = vec![(mix(step as u64, 11) as usize) % n, n - 1];
        if !known.is_empty() {
            picks.push(known[(mix(step as u64, 13) as usize) % known.len()]);
        }
        // the next not-yet-applied op of every author: exactly the ops a replica must accept
        for a in 0..self.cfg.nrep {
            if let Some(i) = (0..n).find(|&i| self.author[i] == a && k >> i & 1 == 0) {
                picks.push(i);
            }
        }
        for j in picks {
            if self.cfg.misuse && S::NAME != "LWW" {
                continue;
            }
            self.st.ev("vop");
            let exp = if self.cfg.misuse { self.lww_misuse_expect(r, j) } else { self.vop_expect(k, j) };
            let got = self.reps[r].validate_op_s(&self.ops[j]);
            let same = match (&exp, &got) {
                (Ok(()), Ok(())) => true,
                (Err(e), Err(g)) => g.contains(e.as_str()),
                _ => false,
            };
            if !same {
                self.vop_fail(r, j, false, got, step)?;
            }
        }
        Ok(())
    }

    /// LWW misuse configuration: verdict from the *observed* register (markers are deliberately reused)
    fn lww_misuse_expect(&self, r: usize, j: usize) -> Result<(), String> {
        let cur = self.reps[r].observe();
        for (i, f) in &self.facts {
            if *i == j {
                if let Fact::Lww { val, marker } = f {
                    let m = cur.reads.field("marker").unwrap().as_seq();
                    let cm = (m[0].as_u().unwrap() as u64, m[1].as_u().unwrap() as u8);
                    let cv = cur.reads.field("val").unwrap().as_u().unwrap() as u32;
                    if cm == *marker && cv != *val {
                        return Err("ConflictingMarker".into());
                    }
                }
            }
        }
        Ok(())
    }

    fn vmerge_probe(&mut self, r: usize, step: usize) -> Result<(), Viol> {
        let k = self.know[r];
        let n = self.reps.len();
        let s = (r + 1 + (mix(step as u64, 17) as usize) % (n - 1).max(1)) % n;
        if s == r {
            return Ok(());
        }
        self.st.ev("vmerge");
        let a = self.reps[r].validate_merge_s(&self.reps[s]);
        let b = self.reps[s].validate_merge_s(&self.reps[r]);
        if a.is_ok() != b.is_ok() {
            return Err(self.v("vmerge", k | self.know[s], format!("validate_merge verdicts differ by direction: r{r}->r{s} {a:?}, r{s}->r{r} {b:?}\n   a={}\n   b={}", dump(&self.reps[r]).show(), dump(&self.reps[s]).show())));
        }
        let must = self.double_spent(&dump(&self.reps[r]), &dump(&self.reps[s]));
        if self.cfg.misuse {
            if must.is_some() {
                self.st.misuse_flagged += 1
            } else {
                self.st.misuse_clean += 1
            }
            if a.is_err() != must.is_some() {
                return Err(self.v("vmerge", k, format!("validate_merge(r{r}, r{s}) = {a:?} but the states {} a dot/marker witnessing different elements ({:?})\n   a={}\n   b={}", if must.is_some() { "share" } else { "do not share" }, must, dump(&self.reps[r]).show(), dump(&self.reps[s]).show())));
            }
            return Ok(());
        }
        if let Err(e) = &a {
            // R6 (known finding), exact per-event attribution: the reported dot is the dot of a multi-member add_all
            if let Some(dot) = must {
                let multi = self.facts.iter().any(|(_, f)| matches!(f, Fact::Up { dot: d, leaf: Leaf::Add(ms), .. } if *d == dot && ms.len() > 1));
                if multi && e.contains("DoubleSpentDot") && crate::taint::is_active("R6") {
                    self.st.r6 += 1;
                    return Ok(());
                }
            }
            return Err(self.v("vmerge", k | self.know[s], format!("validate_merge(r{r}, r{s}) = {a:?} under correct use (distinct actors)\n   a={}\n   b={}", dump(&self.reps[r]).show(), dump(&self.reps[s]).show())));
        }
        Ok(())
    }

    /// from the dumps: some dot is the current witness of one member/key in `a` and of a different one in `b`
    /// (for LWW: equal marker, different value). Returns the offending dot.
    fn double_spent(&self, a: &Dump, b: &Dump) -> Option<DotT> {
        if S::NAME == "LWW" {
            if a.field("marker") == b.field("marker") && a.field("val") != b.field("val") {
                return Some((0, 0));
            }
            return None;
        }
        let (Some(ea), Some(eb)) = (a.field("entries"), b.field("entries")) else { return None };
        let clock_of = |e: &Dump| -> Clk {
            match e.field("clock") {
                Some(c) => c.as_clk(),
                None => e.as_clk(),
            }
        };
        for (ka, va) in ea.as_map() {
            for (kb, vb) in eb.as_map() {
                let (ca, cb) = (clock_of(va), clock_of(vb));
                if ka != kb {
                    for (act, n) in &ca {
                        if cb.get(act) == Some(n) {
                            return Some((*act, *n));
                        }
                    }
                } else if let (Some(na), Some(nb)) = (va.field("val"), vb.field("val")) {
                    // nested values are validated only when the entry clocks are concurrent
                    let conc = !cle(&ca, &cb) && !cle(&cb, &ca);
                    if conc {
                        if let Some(d) = self.double_spent(na, nb) {
                            return Some(d);
                        }
                    }
                }
            }
        }
        None
    }

    // ------------------------------------------------------------------ serde (C19)
    fn classify_serde_err<T: Serialize>(&mut self, what: &str, x: &T, e: &str, k: Bits) -> Result<(), Viol> {
        // R5 (known finding), exact: serde_json fails with "key must be a string" iff some deferred table is non-empty
        if e.contains("key must be a string") && pending_count(&dump(x)) > 0 && crate::taint::is_active("R5") {
            self.st.r5 += 1;
            return Ok(());
        }
        Err(self.v("serde", k, format!("serialising {what} failed: {e}\n   {}", dump(x).show())))
    }

    fn serde_probe(&mut self, r: usize, dmp: &Dump, step: usize) -> Result<(), Viol> {
        let k = self.know[r];
        self.st.ev("serde_state");
        match serde_json::to_string(&self.reps[r]) {
            Err(e) => {
                let st = self.reps[r].clone();
                self.classify_serde_err("state", &st, &e.to_string(), k)?
            }
            Ok(js) => match serde_json::from_str::<S>(&js) {
                Err(e) => return Err(self.v("serde", k, format!("r{r} state does not deserialise: {e}\n   json {js}"))),
                Ok(back) => {
                    if differs_lenient(&back, &self.reps[r]) || dump(&back) != *dmp {
                        return Err(self.v("serde", k, format!("r{r} state round trip differs:\n   before {}\n   after  {}", dmp.show(), dump(&back).show())));
                    }
                    if back.observe() != self.reps[r].observe() {
                        return Err(self.v("serde", k, format!("r{r} restored state reads differently")));
                    }
                }
            },
        }
        if !self.ops.is_empty() {
            let j = (mix(step as u64, 19) as usize) % self.ops.len();
            self.st.ev("serde_op");
            match serde_json::to_string(&self.ops[j]) {
                Err(e) => {
                    let op = self.ops[j].clone();
                    self.classify_serde_err("op", &op, &e.to_string(), k)?
                }
                Ok(js) => match serde_json::from_str::<S::Op>(&js) {
                    Err(e) => return Err(self.v("serde", k, format!("op{j} does not deserialise: {e}\n   json {js}"))),
                    Ok(back) => {
                        if dump(&back) != dump(&self.ops[j]) {
                            return Err(self.v("serde", k, format!("op{j} round trip differs: {:?} -> {:?}", self.ops[j], back)));
                        }
                    }
                },
            }
        }
        Ok(())
    }

    fn start_shadow(&mut self, r: usize, step: usize) -> Result<bool, Viol> {
        if self.shadows.len() >= 3 {
            return Ok(false);
        }
        match serde_json::to_string(&self.reps[r]) {
            Err(e) => {
                let st = self.reps[r].clone();
                self.classify_serde_err("state", &st, &e.to_string(), self.know[r])?;
                Ok(false)
            }
            Ok(js) => match serde_json::from_str::<S>(&js) {
                Err(e) => Err(self.v("serde", self.know[r], format!("r{r} state does not deserialise: {e}"))),
                Ok(back) => {
                    self.st.shadows += 1;
                    self.lg(format!("{step}: shadow of r{r} restored from {} bytes of JSON", js.len()));
                    self.shadows.push((r, back));
                    Ok(true)
                }
            },
        }
    }

    fn shadow_compare(&mut self, r: usize) -> Result<(), Viol> {
        for i in 0..self.shadows.len() {
            if self.shadows[i].0 != r {
                continue;
            }
            self.st.ev("shadow_step");
            let a = self.reps[r].observe();
            let b = self.shadows[i].1.observe();
            if a != b || dump(&self.reps[r]) != dump(&self.shadows[i].1) || differs_lenient(&self.reps[r], &self.shadows[i].1) {
                return Err(self.v("shadow", self.know[r], format!("replica r{r} and its serde-restored shadow diverged:\n   original {}\n   shadow   {}", dump(&self.reps[r]).show(), dump(&self.shadows[i].1).show())));
            }
            // ops generated from either must be identical
            if let Some(me) = self.actors[r] {
                let mut sh1 = self.sh.clone();
                let mut sh2 = self.sh.clone();
                let probe = S::random_cmd(&mut crate::rng::Rng::new(self.ops.len() as u64), &self.sh);
                let g1 = self.reps[r].gen(me, &probe, &mut sh1, &self.reps[r]);
                let g2 = self.shadows[i].1.gen(me, &probe, &mut sh2, &self.shadows[i].1);
                if g1.map(|g| dump(&g.op)) != g2.map(|g| dump(&g.op)) {
                    return Err(self.v("shadow", self.know[r], format!("replica r{r} and its restored shadow generate different ops")));
                }
            }
        }
        Ok(())
    }

    fn shadow_apply_op(&mut self, r: usize, i: usize) -> Result<(), Viol> {
        if self.shadows.iter().all(|(q, _)| *q != r) {
            return Ok(());
        }
        // the op travels through JSON on its way to the shadow
        let op = match serde_json::to_string(&self.ops[i]) {
            Ok(js) => match serde_json::from_str::<S::Op>(&js) {
                Ok(o) => o,
                Err(e) => return Err(self.v("serde", self.know[r], format!("op{i} does not deserialise: {e}"))),
            },
            Err(e) => {
                let op = self.ops[i].clone();
                self.classify_serde_err("op", &op, &e.to_string(), self.know[r])?;
                op
            }
        };
        for s in self.shadows.iter_mut().filter(|(q, _)| *q == r) {
            s.1.apply_op(op.clone());
        }
        self.shadow_compare(r)
    }

    fn shadow_merge(&mut self, r: usize, other: &S) -> Result<(), Viol> {
        if self.shadows.iter().all(|(q, _)| *q != r) {
            return Ok(());
        }
        let o2 = match serde_json::to_string(other) {
            Ok(js) => match serde_json::from_str::<S>(&js) {
                Ok(o) => o,
                Err(e) => return Err(self.v("serde", self.know[r], format!("state does not deserialise: {e}"))),
            },
            Err(e) => {
                self.classify_serde_err("state", other, &e.to_string(), self.know[r])?;
                other.clone()
            }
        };
        for s in self.shadows.iter_mut().filter(|(q, _)| *q == r) {
            s.1.merge_from(o2.clone());
        }
        // comparison happens after the original has merged too: done by the caller's `after` via shadow_compare
        Ok(())
    }

    // ------------------------------------------------------------------ residue (C20)
    fn residue_check(&mut self, r: usize, d: &Dump, sp: &Obs) -> Result<(), Viol> {
        let k = self.know[r];
        self.st.ev("residue");
        let p = pending_count(d);
        if p > 0 {
            return Err(self.v("residue", k, format!("r{r} has applied every remove together with everything it observed (K={k:#x} causally closed) but still holds {p} pending remove(s):\n   {}", d.show())));
        }
        fn empty_witness(d: &Dump) -> bool {
            match d {
                Dump::Struct(_, fs) => fs.iter().any(|(kk, v)| (*kk == "entries" && v.as_map().iter().any(|(_, e)| e.as_map().is_empty() && matches!(e, Dump::Map(_)) || e.field("clock").map(|c| c.as_map().is_empty()).unwrap_or(false))) || empty_witness(v)),
                Dump::Seq(v) => v.iter().any(empty_witness),
                Dump::Map(v) => v.iter().any(|(_, x)| empty_witness(x)),
                _ => false,
            }
        }
        if empty_witness(d) {
            return Err(self.v("residue", k, format!("r{r} keeps an element with an empty witness clock:\n   {}", d.show())));
        }
        // canonical rebuild through serde for the flat types
        let canon: Option<String> = match S::NAME {
            "OS" => {
                let add = sp.ctx.field("add").unwrap().as_clk();
                let entries: BTreeMap<String, BTreeMap<String, u64>> = sp.ctx.field("w").unwrap().as_map().iter().map(|(m, c)| (m.as_u().unwrap().to_string(), c.as_clk().iter().map(|(a, n)| (a.to_string(), *n)).collect())).collect();
                let clock: BTreeMap<String, u64> = add.iter().map(|(a, n)| (a.to_string(), *n)).collect();
                Some(serde_json::json!({"clock": clock, "entries": entries, "deferred": {}}).to_string())
            }
            "MV" => {
                // the shown writes with exactly the clocks they must carry (own dot + read-from closure)
                let facts = self.facts_of(k);
                let rfc = &self.rfc;
                let past = |i: usize, j: usize| -> bool { rfc[j] >> i & 1 == 1 };
                let puts: Vec<(usize, u32)> = facts.iter().filter_map(|(id, f)| if let Fact::MvPut { val, .. } = f { Some((*id, *val)) } else { None }).collect();
                let mut vals = vec![];
                for (i, v) in &puts {
                    if puts.iter().any(|(j, _)| j != i && past(*i, *j)) {
                        continue;
                    }
                    let c: BTreeMap<String, u64> = crate::spec::mv_clock(&self.facts, &past, *i).iter().map(|(a, n)| (a.to_string(), *n)).collect();
                    vals.push(serde_json::json!([c, v]));
                }
                if self.cfg.equal_vals {
                    None
                } else {
                    Some(serde_json::Value::Array(vals).to_string())
                }
            }
            _ => None,
        };
        if let Some(js) = canon {
            self.st.ev("canonical");
            match serde_json::from_str::<S>(&js) {
                Ok(c) => {
                    if differs(&c, &self.reps[r]) {
                        return Err(self.v("residue", k, format!("r{r} differs from the canonical state (clock + surviving elements with their witnesses):\n   state     {}\n   canonical {}", d.show(), dump(&c).show())));
                    }
                }
                Err(e) => return Err(self.v("harness", k, format!("canonical state does not parse: {e} {js}"))),
            }
        }
        Ok(())
    }

    // ------------------------------------------------------------------ merge laws (C02) and hybrid (C03)

    /// Two states that are claimed to be "the same" (two evaluation orders of a merge, merge vs op path)
    /// must also *stay* the same: feed both the remaining ops of the history (causally ready ones, in
    /// issue order) and compare reads after each. Catches hidden-state differences (witness clocks,
    /// pending removes) that only later change what a read returns.
    fn followup(&mut self, x: &S, y: &S, k: Bits) -> Option<(String, Bits)> {
        let mut x = x.clone();
        let mut y = y.clone();
        let mut kc = k;
        let mut applied = vec![];
        for i in 0..self.ops.len() {
            if kc >> i & 1 == 1 || self.deps[i] & !kc != 0 {
                continue;
            }
            x.apply_op(self.ops[i].clone());
            y.apply_op(self.ops[i].clone());
            kc |= 1 << i;
            applied.push(i);
            self.st.ev("law_followup");
            if S::IS_MAP && !self.t7_fired {
                let kf = self.facts_of(kc);
                if crate::taint::r7_state(&kf, &self.facts, &|id| kc >> id & 1 == 1) {
                    self.t7_fired = true;
                }
            }
            let (ox, oy) = (x.observe(), y.observe());
            if ox.reads != oy.reads {
                // the verdict depends on the follow-up ops too: they belong to the knowledge set of the violation
                return Some((format!("after additionally applying ops {applied:?} to both: reads {} vs {}", ox.reads.show(), oy.reads.show()), kc));
            }
            if applied.len() >= 8 {
                break;
            }
        }
        None
    }
    fn law(&mut self, kind: u8, i: usize, j: usize, k3: usize, step: usize) -> Result<bool, Viol> {
        if self.pool.is_empty() || !S::HAS_MERGE {
            return Ok(false);
        }
        let n = self.pool.len();
        let (a, ka) = self.pool[i % n].clone();
        let (b, kb) = self.pool[j % n].clone();
        let (c, kc) = self.pool[k3 % n].clone();
        self.merged = true;
        if S::IS_MAP && !self.t7_fired {
            // the merges evaluated by this probe pass through these knowledge sets: the schedule-level R7
            // trigger must be evaluated on them too (operands may be partially fed observers)
            for ku in [ka | kb, kb | kc, ka | kc, ka | kb | kc] {
                let kf = self.facts_of(ku);
                if crate::taint::r7_state(&kf, &self.facts, &|id| ku >> id & 1 == 1) {
                    self.t7_fired = true;
                    break;
                }
            }
        }
        for (x, y) in [(ka, kb), (kb, kc), (ka | kb, kc), (ka, kb | kc), (ka, kc)] {
            self.note_merge(x, y);
        }
        let kind = kind % 4;
        self.lg(format!("{step}: law{kind} on pool states {} {} {} (K={ka:#x},{kb:#x},{kc:#x})", i % n, j % n, k3 % n));
        let ob = |s: &S| s.observe();
        let incomparable = |x: Bits, y: Bits| x & !y != 0 && y & !x != 0;
        match kind {
            0 => {
                self.st.ev("law_comm");
                if incomparable(ka, kb) {
                    self.st.incomparable_triples += 1;
                }
                let mut ab = a.clone();
                ab.merge_from(b.clone());
                let mut ba = b.clone();
                ba.merge_from(a.clone());
                if ob(&ab).reads != ob(&ba).reads {
                    return Err(self.v("comm", ka | kb, format!("a+b reads {}\n   b+a reads {}\n   a={}\n   b={}", ob(&ab).reads.show(), ob(&ba).reads.show(), dump(&a).show(), dump(&b).show())));
                }
                if let Some((d, kf)) = self.followup(&ab, &ba, ka | kb) {
                    return Err(self.v("comm", kf, format!("a+b and b+a read the same now but diverge later: {d}\n   a={}\n   b={}", dump(&a).show(), dump(&b).show())));
                }
            }
            1 => {
                self.st.ev("law_assoc");
                if incomparable(ka, kb) && incomparable(kb, kc) && incomparable(ka, kc) {
                    self.st.incomparable_triples += 1;
                }
                let mut ab_c = a.clone();
                ab_c.merge_from(b.clone());
                ab_c.merge_from(c.clone());
                let mut bc = b.clone();
                bc.merge_from(c.clone());
                let mut a_bc = a.clone();
                a_bc.merge_from(bc);
                if ob(&ab_c).reads != ob(&a_bc).reads {
                    return Err(self.v("assoc", ka | kb | kc, format!("(a+b)+c reads {}\n   a+(b+c) reads {}\n   a={}\n   b={}\n   c={}", ob(&ab_c).reads.show(), ob(&a_bc).reads.show(), dump(&a).show(), dump(&b).show(), dump(&c).show())));
                }
                if let Some((d, kf)) = self.followup(&ab_c, &a_bc, ka | kb | kc) {
                    return Err(self.v("assoc", kf, format!("(a+b)+c and a+(b+c) read the same now but diverge later: {d}\n   a={}\n   b={}\n   c={}", dump(&a).show(), dump(&b).show(), dump(&c).show())));
                }
            }
            2 => {
                self.st.ev("law_idem");
                let mut aa = a.clone();
                aa.merge_from(a.clone());
                if ob(&aa).reads != ob(&a).reads {
                    return Err(self.v("idem", ka, format!("a+a reads {}\n   a reads {}\n   a={}", ob(&aa).reads.show(), ob(&a).reads.show(), dump(&a).show())));
                }
            }
            _ => {
                // hybrid: merge(state(Ka), state(Kb)) reads as a replica that applied Ka|Kb as ops
                let ku = ka | kb;
                if !(self.closed(ku) || (self.cfg.anyk && S::ANYK_OK)) {
                    return Ok(false);
                }
                self.st.ev("law_hybrid");
                if incomparable(ka, kb) {
                    self.st.incomparable_triples += 1;
                }
                let mut ab = a.clone();
                ab.merge_from(b.clone());
                let sp = self.spec_of(ku);
                let o = ob(&ab);
                if !S::reads_match(&o, &sp) {
                    return Err(self.v("hybrid", ku, format!("merge(state(Ka),state(Kb)) reads {}\n   model of Ka|Kb {}\n   a={}\n   b={}", o.reads.show(), sp.reads.show(), dump(&a).show(), dump(&b).show())));
                }
                if self.closed(ku) {
                    // the real op path: a fresh replica fed Ka|Kb in issue order (a causal order)
                    self.st.ev("law_hybrid_oppath");
                    let mut f = self.init.clone();
                    for id in 0..self.ops.len() {
                        if ku >> id & 1 == 1 {
                            f.apply_op(self.ops[id].clone());
                        }
                    }
                    if ob(&f).reads != o.reads {
                        return Err(self.v("hybrid", ku, format!("merge(state(Ka),state(Kb)) reads {}\n   delivering Ka|Kb as ops reads {}\n   a={}\n   b={}", o.reads.show(), ob(&f).reads.show(), dump(&a).show(), dump(&b).show())));
                    }
                    if let Some((d, kf)) = self.followup(&ab, &f, ku) {
                        return Err(self.v("hybrid", kf, format!("merge(state(Ka),state(Kb)) and the op path for Ka|Kb read the same now but diverge later: {d}\n   a={}\n   b={}", dump(&a).show(), dump(&b).show())));
                    }
                }
            }
        }
        Ok(true)
    }
}
