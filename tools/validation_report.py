#!/usr/bin/env python3
"""Dev tool: regenerate validation/seeds.md and print the summary paragraph used in DESIGN §12.7."""
import json,glob,re,collections,subprocess
rows=[]
for d in sorted(glob.glob('/verif/seeded/*/')):
    m=json.load(open(d+'meta.json'))
    patch=open(d+'patch.diff').read()
    files=sorted(set(re.findall(r'^\+\+\+ b/(\S+)',patch,re.M)))
    needs=(m.get('needs_to_manifest') or '').strip().split('\n')
    first=re.sub(r'\s+',' ',' '.join(needs[:3]))[:220].replace('|','/')
    rnd='1' if re.match(r'^C\d\d-\d$',m['id']) else m['id'].split('-')[1][1:]
    rows.append((m['id'],rnd,m['breaks_property'],', '.join(f.replace('src/','') for f in files),first,m['quick_checks_that_caught_it']))
out=['# Seeded changes (independent sub-agents) and the quick checks that report them','',
 'Each row: a change to `/repo` that compiles, passes the pinned 132-test suite, and makes its own demo fail (all three confirmed by `tools/verify_seed.sh` in a scratch worktree). `quick checks` = registered quick commands that exit 1 with a VIOLATION line when the patch is applied (scratch copy, VERIF_SEED=1, `tools/seedcheck.py`).','',
 '| seed | round | targets | files | what (from the author\'s note) | quick checks that report VIOLATION |','|---|---|---|---|---|---|']
for r in rows: out.append(f"| {r[0]} | {r[1]} | {r[2]} | {r[3]} | {r[4]} | {' '.join(r[5]) or '**none**'} |")
n=len(rows); own=sum(1 for r in rows if r[2] in r[5]); anyc=sum(1 for r in rows if r[5])
byr=collections.Counter(r[1] for r in rows)
out+=['',f'{n} seeded changes ({", ".join(f"round {k}: {v}" for k,v in sorted(byr.items(), key=lambda kv: int(kv[0])))}); caught by at least one quick check: {anyc}; caught by the quick check of the property they target: {own}.']
miss=[r[0] for r in rows if r[2] not in r[5]]
out+=['','Not caught by their own property\'s quick check (but by another one): '+(', '.join(miss) or 'none')]
open('/verif/validation/seeds.md','w').write('\n'.join(out)+'\n')
print(out[-3]); print(out[-1])
per=collections.Counter()
for r in rows:
    for c in r[5]: per[c]+=1
print('seeds caught per check:',dict(sorted(per.items())))
