#!/usr/bin/env bash
# Dev tool: confirm one sub-agent seed and record it under /verif/seeded/<id>/ with the checks that catch it.
#   tools/process_seed.sh C04 1 [/tmp/wt2 r2]
P="$1"; N="$2"; BASE="${3:-/tmp/wt}"; TAG="${4:-}"; WT=$BASE/$P; ID="${P}-${TAG:+$TAG-}$N"; OUT=/verif/seeded/$ID
[ -f "$WT/out/patch$N.diff" ] || { echo "$ID: no patch"; exit 0; }
V=$(/verif/tools/verify_seed.sh "$WT" "$N" 2>&1)
echo "$V" | sed "s/^/$ID: /"
echo "$V" | grep -q "demo$N without patch: exit=0" || { echo "$ID: REJECTED (demo fails without patch)"; exit 0; }
echo "$V" | grep -q "132 passed" || { echo "$ID: REJECTED (tests)"; exit 0; }
echo "$V" | grep -q "demo$N with patch: exit=0" && { echo "$ID: REJECTED (demo passes with patch)"; exit 0; }
C=$(MUT_SCRATCH=${SEED_SCRATCH:-/tmp/mut2} python3 /verif/tools/seedcheck.py "$WT/out/patch$N.diff" ${SEED_PROPS:-} 2>&1)
echo "$C" | sed "s/^/$ID: /"
mkdir -p "$OUT"
cp "$WT/out/patch$N.diff" "$OUT/patch.diff"; cp "$WT/out/demo$N.rs" "$OUT/demo.rs"; cp "$WT/out/meta$N.txt" "$OUT/needs.txt" 2>/dev/null
CAUGHT=$(echo "$C" | grep "^CAUGHT-BY:" | sed 's/CAUGHT-BY: //')
python3 - "$ID" "$P" "$OUT" "$CAUGHT" <<'PY'
import json,sys
id_,prop,out,caught=sys.argv[1:5]
needs=open(out+'/needs.txt').read() if __import__('os').path.exists(out+'/needs.txt') else ''
json.dump({"id":id_,"breaks_property":prop,"source":"independent sub-agent given only the property text and a scratch worktree",
 "needs_to_manifest":needs,
 "confirmed":{"suite_with_patch":"132 passed (cargo nextest, pinned command minus the always-hanging prop_op_reordering_converges)","demo_without_patch":"exit 0","demo_with_patch":"non-zero exit","how":"tools/verify_seed.sh in the scratch worktree"},
 "quick_checks_that_caught_it":caught.split() if caught!='none' else [],"checked_with":"tools/seedcheck.py (scratch copy of /repo + harness), VERIF_SEED=1, checks run: "+(__import__("os").environ.get("SEED_PROPS") or "all twenty")},open(out+'/meta.json','w'),indent=1)
PY
