#!/usr/bin/env python3
"""Dev tool: write the prompt given to an independent sub-agent that seeds a change breaking one property.
The agent sees only the property text and its own scratch worktree (nothing from /verif).
   tools/seed_prompt.py <base dir, e.g. /tmp/wt9> <Cxx> "<additional requirement for this round>"  > prompt file"""
import json, sys

base, pid, twist = sys.argv[1], sys.argv[2], sys.argv[3]
props = {}
for l in open('/verif/properties.jsonl'):
    d = json.loads(l)
    props[d['id']] = d
d = props[pid]
wt = f'{base}/{pid}'
print(f"""You are helping to evaluate a verification tool by producing realistic *seeded defects* in a Rust library.

The library is the `crdts` crate (rust-crdt: state- and op-based CRDTs built on vector clocks). You have your own scratch git worktree of it at {wt} (work ONLY inside that directory; never touch /repo or /verif, and do not read anything under /verif or other directories under /tmp).

The property that your change must break:

  Title: {d['title']}
  Statement: {d['statement']}
  Quantified over: {d['quantifier']['text']}

Task: produce TWO different (independent, alternative) source changes to the library (files under {wt}/src), each of which
  1. still compiles,
  2. still passes the library's existing test-suite (run it, from {wt}: `cargo nextest run --workspace --no-fail-fast --tool-config-file pb:/w/lib/nextest.toml --profile pb --test-threads 8 --offline -E 'not test(prop_op_reordering_converges)'` — 132 tests must pass; the excluded test hangs on the unmodified code already; the suite contains randomized quickcheck tests, so run it twice),
  3. breaks the property above in a way that needs something SPECIFIC to manifest. NOT something that ordinary use would expose at once, and not something trivially caught by the existing tests.
  Additional requirement for this round: {twist}
  Keep each change small and plausible as a human regression. The change must alter behaviour only through the library's source (no test edits, no Cargo changes, no new dependencies; the network is unavailable, use cargo with --offline).

For each of the two changes deliver, in {wt}/out/ (create it):
  - `patchN.diff` (N = 1, 2): output of `git diff` for that change alone relative to the worktree's HEAD (so that `git apply patchN.diff` on a clean checkout reproduces it),
  - `demoN.rs`: a demonstration, written as a cargo *example program* `{wt}/examples/demoN.rs` using only the public API of `crdts` (`fn main()` that panics/asserts when the property is violated and exits 0 otherwise). It must FAIL (non-zero exit) with the change applied and PASS (exit 0) on the unmodified worktree: verify both yourself with `cargo run --offline --example demoN`. Copy the example file to {wt}/out/demoN.rs as well.
  - `metaN.txt`: 5-10 lines: what the change is, why the existing tests do not notice, and exactly what is needed for it to manifest.
When you are done, restore the worktree sources to HEAD (`git checkout -- src`), leaving only the files under {wt}/out/ and the examples. Work in small steps and keep each of your messages short (long single responses get cut off). In your final answer, summarise the two changes briefly and confirm the pass/fail results you observed for the test-suite and for each demo with and without the change.
Use the public API only in demos; look at {wt}/README.md, {wt}/examples and {wt}/test for API usage. Disk space is limited: do not create additional copies of the repository.""")
