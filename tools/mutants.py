#!/usr/bin/env python3
"""Dev tool: textual mutants of /repo used to validate the monitors (DESIGN §10).
Each mutant is applied to /repo in place, the listed quick checks are run, and /repo is restored."""
import subprocess, sys, os, shutil
# everything happens in a scratch copy (repo sources, harness, known findings): /repo and /verif stay untouched,
# so other checks can run meanwhile
SCR=os.environ.get('MUT_SCRATCH','/tmp/mut')
REPO=SCR+'/repo'
def setup():
    os.makedirs(SCR,exist_ok=True)
    subprocess.run(f"rsync -a --delete --exclude target --exclude .git /repo/ {REPO}/",shell=True,check=True)
    subprocess.run(f"rsync -a --delete --exclude target /verif/harness/ {SCR}/harness/",shell=True,check=True)
    subprocess.run(f"mkdir -p {SCR}/verif && rsync -a --delete /verif/known_findings /verif/known_findings.json {SCR}/verif/",shell=True,check=True)
    t=open(f"{SCR}/harness/Cargo.toml").read().replace('path = "/repo"',f'path = "{REPO}"')
    open(f"{SCR}/harness/Cargo.toml",'w').write(t)
setup()
def check(pr):
    b=subprocess.run(f"cd {SCR}/harness && CARGO_NET_OFFLINE=true cargo build --release --offline 2>&1 | grep -E '^error' -A6 | head -20",shell=True,capture_output=True,text=True)
    if b.stdout.strip():
        class R: pass
        r=R(); r.returncode=2; r.stdout='BUILD ERROR '+b.stdout[:300]; return r
    return subprocess.run([f'{SCR}/harness/target/release/crdtmon','check',pr,'--tier','quick','--seed',os.environ.get('VERIF_SEED','1'),'--verif-dir',f'{SCR}/verif'],capture_output=True,text=True)
M=[
 ('M1 orswot apply Add: no apply_deferred','src/orswot.rs','''                self.clock.apply(dot);
                self.apply_deferred();''','''                self.clock.apply(dot);''','C04 C08'),
 ('M2 orswot merge: other.clock > clock','src/orswot.rs','if other.clock >= clock {','if other.clock > clock {','C02 C03 C04 C09'),
 ('M3 map apply Up: no apply_deferred','src/map.rs','''                self.clock.apply(dot);
                self.apply_deferred();''','''                self.clock.apply(dot);''','C05 C08'),
 ('M4 map keyset_rm: skip nested reset','src/map.rs','''                    entry.val.reset_remove(&clock);
                }
            }
        }

        // now we need''','''                }
            }
        }

        // now we need''','C05 C01'),
 ('M5 map merge: drop deferred merge','src/map.rs','''        for (rm_clock, keys) in other.deferred {
            self.apply_keyset_rm(keys, rm_clock);
        }''','''        let _ = other.deferred;''','C03 C08 C05'),
 ('M6 vclock reset_remove >','src/vclock.rs','if counter >= self.get(actor) {','if counter > self.get(actor) {','C10 C04 C18'),
 ('M7 mvreg apply: dominated put still added','src/mvreg.rs','if existing_clock > &clock {','if existing_clock > &clock && false {','C06 C09'),
 ('M8 map apply dot gate >','src/map.rs',"if self.clock.get(&dot.actor) >= dot.counter {\n                    // we've seen this op already","if self.clock.get(&dot.actor) > dot.counter {\n                    // we've seen this op already",'C09 C05'),
 ('M9 map merge: self.clock > entry.clock','src/map.rs','if self.clock >= entry.clock {','if self.clock > entry.clock {','C02 C03 C09'),
 ('M10 orswot apply_rm: defer only Greater','src/orswot.rs','None | Some(Ordering::Greater) => {\n                if let Some(existing_deferred)','Some(Ordering::Greater) => {\n                if let Some(existing_deferred)','C04 C08'),
 ('M11 orswot merge: skip common-dot drop','src/orswot.rs','if common.is_empty() {','if common.is_empty() && false {','C02 C03 C04 C20'),
 ('M12 map keyset_rm: defer only Less','src/map.rs','None | Some(Ordering::Less) => {\n                // this remove clock','Some(Ordering::Less) => {\n                // this remove clock','C05 C08'),
 ('M13 ctx derive_add_ctx: clock not advanced','src/ctx.rs','clock.apply(dot.clone());\n        AddCtx','AddCtx','C07 C06'),
 ('M14 map merge: entry only in other: no reset of val','src/map.rs','entry.val.reset_remove(&information_we_deleted);','let _ = information_we_deleted;','C03 C02 C05'),
 ('M15 mvreg merge: keep dominated self vals','src/mvreg.rs','.filter(|(clock, _)| other.vals.iter().filter(|(c, _)| clock < c).count() == 0)','.filter(|(clock, _)| other.vals.iter().filter(|(c, _)| clock < c).count() == 0 || true)','C06 C02 C03'),
 ('N1 list apply: clock not advanced','src/list.rs','        self.clock.apply(op_dot);\n        match op {','        match op {','C12 C16 C09'),
 ('N2 list dot gate <','src/list.rs','if op_dot.counter <= self.clock.get(&op_dot.actor) {','if op_dot.counter < self.clock.get(&op_dot.actor) {','C09 C12'),
 ('N3 identifier: prefix rule flipped','src/identifier.rs','(None, Some(_)) => return Ordering::Greater,\n                (Some(_), None) => return Ordering::Less,','(None, Some(_)) => return Ordering::Less,\n                (Some(_), None) => return Ordering::Greater,','C14 C13'),
 ('N4 identifier between: marker fit uses <=','src/identifier.rs','if l_m < &marker && &marker < h_m {','if l_m <= &marker && &marker < h_m {','C14'),
 ('N5 identifier between: do not clear low path','src/identifier.rs','                                path.push((h_ratio.clone(), h_m.clone()));\n                                low_path = Box::new(std::iter::empty());','                                path.push((h_ratio.clone(), h_m.clone()));','C14'),
 ('N6 merkle: children stay roots','src/merkle_reg.rs','            for child in node.children.iter() {\n                self.roots.remove(child);\n            }','            let _ = &node.children;','C15'),
 ('N7 merkle: orphans not re-examined','src/merkle_reg.rs','            for node in nodes_to_apply {\n                self.apply(node);\n            }','            for node in nodes_to_apply {\n                self.orphans.insert(node.hash(), node);\n            }','C15 C08'),
 ('N8 merkle merge skips orphans','src/merkle_reg.rs','        for (_, node) in orphans {\n            self.apply(node);\n        }','        let _ = orphans;','C15 C03'),
 ('N9 gcounter inc_many ignores base','src/gcounter.rs','let steps = steps + self.inner.get(&actor);','let steps = steps.max(self.inner.get(&actor));','C11'),
 ('N10 vclock glb keeps zero','src/vclock.rs','                    0 => None,\n                    _ => Some((actor, min_count)),','                    _ => Some((actor, min_count)),','C10'),
 ('N11 vclock intersection uses >=','src/vclock.rs','if right_counter == *left_counter {','if right_counter >= *left_counter {','C10 C02'),
 ('N12 vclock validate_op off by one','src/vclock.rs','if dot.counter > next_counter {','if dot.counter >= next_counter {','C10 C16'),
 ('N13 vclock partial_cmp: Less test uses any','src/vclock.rs','} else if self.dots.iter().all(|(w, c)| other.get(w) >= *c) {','} else if self.dots.iter().any(|(w, c)| other.get(w) >= *c) {','C10'),
 ('N14 glist insert_before picks wrong low','src/glist.rs','.rev()\n                .find(|id| id < &high_id)','.find(|id| id < &high_id)','C13'),
 ('N15 list insert_index: neighbours off by one','src/list.rs','let mut indices = self.seq.keys().skip(indices_to_drop);','let mut indices = self.seq.keys().skip(indices_to_drop.saturating_sub(1));','C13'),
 ('N16 orswot validate_merge: skip check','src/orswot.rs','if other_member != member && other_clock.get(actor) == counter {','if other_member != member && other_clock.get(actor) == counter && counter > 1 {','C17'),
 ('N18 lwwreg update <=','src/lwwreg.rs','if self.marker < marker {','if self.marker <= marker {','C11 C09'),
 ('N19 mvreg eq: one direction only','src/mvreg.rs','''        for dot in other.vals.iter() {
            let num_found = self.vals.iter().filter(|d| d == &dot).count();

            if num_found == 0 {
                return false;
            }
            // sanity check
            assert_eq!(num_found, 1);
        }
        true''','''        true''','C20 C19'),
 ('N20 map validate_merge: skip nested','src/map.rs','if key == other_key && entry.clock.concurrent(&other_entry.clock) {','if key == other_key && entry.clock.concurrent(&other_entry.clock) && false {','C17'),
 ('N21 orswot reset_remove: clock not reset','src/orswot.rs','    fn reset_remove(&mut self, clock: &VClock<A>) {\n        self.clock.reset_remove(clock);\n\n        self.entries','    fn reset_remove(&mut self, clock: &VClock<A>) {\n        self.entries','C18 C05'),
 ('N22 mvreg reset_remove keeps emptied','src/mvreg.rs','                if val_clock.is_empty() {\n                    None // remove this value from the register','                if val_clock.is_empty() && false {\n                    None // remove this value from the register','C18 C05'),
 ('N23 maxreg update >=','src/maxreg.rs','if val > self.val {','if val >= self.val {',''),
 ('N24 pncounter dec uses p','src/pncounter.rs','            dot: self.n.inc_many(actor, steps),','            dot: self.p.inc_many(actor, steps),','C11'),
 ('N25 orswot contains: rm_clock is set clock','src/orswot.rs','            rm_clock: member_clock_opt.cloned().unwrap_or_default(),\n            val: exists,','            rm_clock: if exists { self.clock.clone() } else { Default::default() },\n            val: exists,','C07 C04'),
 ('N26 map get: rm_clock is map clock','src/map.rs','''            rm_clock: entry_opt
                .map(|map_entry| map_entry.clock.clone())
                .unwrap_or_default(),''','''            rm_clock: entry_opt
                .map(|_| self.clock.clone())
                .unwrap_or_default(),''','C07 C05'),
 # magnitude class (needs replicas with a long past: aged starts)
 ('N27 orswot apply Add: dedup compares truncated counters','src/orswot.rs','if self.clock.get(&dot.actor) >= dot.counter {','if self.clock.get(&dot.actor) as u32 >= dot.counter as u32 {','C04 C05 C16 C09'),
 ('N28 list apply: dedup compares u16 counters','src/list.rs','if op_dot.counter <= self.clock.get(&op_dot.actor) {','if op_dot.counter as u16 <= self.clock.get(&op_dot.actor) as u16 {','C12 C13 C09 C16'),
 ('N29 map apply Up: dedup compares u8 counters','src/map.rs',"if self.clock.get(&dot.actor) >= dot.counter {\n                    // we've seen this op already","if self.clock.get(&dot.actor) as u8 >= dot.counter as u8 {\n                    // we've seen this op already",'C05 C09 C16 C01'),
]
sel=sys.argv[1:]
allp=os.environ.get('ALLPROPS')
for name,f,a,b,props in M:
    if sel and name.split()[0] not in sel: continue
    p=os.path.join(REPO,f); src=open(p).read()
    if src.count(a)!=1:
        print(name,'PATTERN COUNT',src.count(a)); continue
    open(p,'w').write(src.replace(a,b))
    try:
        res=[]
        plist=(props.split() if props and not allp else ['C%02d'%i for i in range(1,21)])
        for pr in plist:
            r=check(pr)
            res.append(f"{pr}={'CAUGHT' if r.returncode==1 else ('ok' if r.returncode==0 else 'INCONCL')}")
            if r.returncode==2: print('   ',r.stdout.strip().splitlines()[-1][:200])
        print(name,'=>',' '.join(res),flush=True)
    finally:
        open(p,'w').write(src)
