#!/usr/bin/env python3
"""Dev tool: run the quick checks against a patch in a scratch copy (never touches /repo or /verif).
   tools/seedcheck.py <patch.diff> [C01 C02 ...]   env: MUT_SCRATCH (default /tmp/mut2), VERIF_SEED"""
import subprocess, sys, os
SCR=os.environ.get('MUT_SCRATCH','/tmp/mut2'); REPO=SCR+'/repo'
os.makedirs(SCR,exist_ok=True)
subprocess.run(f"rsync -a --delete --exclude target --exclude .git /repo/ {REPO}/",shell=True,check=True)
subprocess.run(f"rsync -a --delete --exclude target /verif/harness/ {SCR}/harness/",shell=True,check=True)
subprocess.run(f"mkdir -p {SCR}/verif && rsync -a --delete /verif/known_findings /verif/known_findings.json {SCR}/verif/",shell=True,check=True)
t=open(f"{SCR}/harness/Cargo.toml").read().replace('path = "/repo"',f'path = "{REPO}"'); open(f"{SCR}/harness/Cargo.toml",'w').write(t)
patch=os.path.abspath(sys.argv[1]); props=sys.argv[2:] or ['C%02d'%i for i in range(1,21)]
r=subprocess.run(f"cd {REPO} && patch -p1 -s < {patch}",shell=True,capture_output=True,text=True)
if r.returncode!=0: print('patch failed',r.stdout,r.stderr); sys.exit(3)
b=subprocess.run(f"cd {SCR}/harness && CARGO_NET_OFFLINE=true cargo build --release --offline 2>&1 | grep -E '^error' -A6 | head -20",shell=True,capture_output=True,text=True)
if b.stdout.strip(): print('BUILD ERROR',b.stdout); sys.exit(2)
caught=[]
for pr in props:
    r=subprocess.run([f'{SCR}/harness/target/release/crdtmon','check',pr,'--tier',os.environ.get('TIER','quick'),'--seed',os.environ.get('VERIF_SEED','1'),'--verif-dir',f'{SCR}/verif'],capture_output=True,text=True)
    lines=r.stdout.splitlines()
    first=''
    for i,l in enumerate(lines):
        if l.startswith('VIOLATION'): first=lines[i+1][:170] if i+1<len(lines) else ''; break
    if r.returncode==2: first=[l for l in lines if 'INCONCLUSIVE' in l][:1]
    print(pr,'rc=%d'%r.returncode,first,flush=True)
    if r.returncode==1: caught.append(pr)
print('CAUGHT-BY:',' '.join(caught) or 'none')
