#!/usr/bin/env bash
# Dev tool: confirm a sub-agent's seeded change in its own scratch worktree:
#   demo passes without the change; with it the library builds, the pinned test-suite passes, the demo fails.
#   tools/verify_seed.sh /tmp/wt/C04 1
WT="$1"; N="$2"
cd "$WT" || exit 3
git checkout -q -- src
cp out/demo$N.rs examples/demo$N.rs
echo -n "demo$N without patch: "; cargo run -q --offline --example demo$N >/dev/null 2>&1; echo "exit=$?"
git apply out/patch$N.diff || { echo "patch$N does not apply"; exit 3; }
echo -n "tests with patch$N: "; cargo nextest run --workspace --no-fail-fast --tool-config-file pb:/w/lib/nextest.toml --profile pb --test-threads 8 --offline -E 'not test(prop_op_reordering_converges)' 2>&1 | grep -E "Summary|error\[" | head -3
echo -n "demo$N with patch: "; cargo run -q --offline --example demo$N >/dev/null 2>&1; echo "exit=$?"
git checkout -q -- src
