#!/usr/bin/env python3
"""Dev tool: markdown table of the confirmed seeded changes and the quick checks that catch them."""
import json,glob,os,re
rows=[]
for d in sorted(glob.glob('/verif/seeded/*/')):
    m=json.load(open(d+'meta.json'))
    patch=open(d+'patch.diff').read()
    files=sorted(set(re.findall(r'^\+\+\+ b/(\S+)',patch,re.M)))
    needs=(m.get('needs_to_manifest') or '').strip().split('\n')
    first=next((l for l in needs if l.strip()),'')[:110]
    rows.append((m['id'],m['breaks_property'],', '.join(f.replace('src/','') for f in files),first,' '.join(m['quick_checks_that_caught_it']) or '**none**'))
print('| seed | targets | files | what (first line of the author\'s note) | quick checks that report VIOLATION |')
print('|---|---|---|---|---|')
for r in rows: print('| '+' | '.join(r)+' |')
print(f'\n{len(rows)} seeded changes; caught by the targeted property\'s own check: {sum(1 for r in rows if r[1] in r[4].split())}; caught by at least one check: {sum(1 for r in rows if "none" not in r[4])}')
