#!/usr/bin/env bash
# Dev tool: re-run all quick checks on every confirmed seed under /verif/seeded and refresh meta.json.
#   tools/recheck_seeds.sh [shard k] [of n]      (each shard uses its own scratch copy /tmp/mutR<k>)
#   env PROPS="C02 C03": only these checks are re-run and only their entries in meta.json are replaced;
#   env PROPS=listed: per seed, its own property plus the checks recorded in its meta.json (re-validation after
#   a change of the machinery at a fraction of the cost);
#   env PROPS=own: per seed only its own property's check (plus up to three others where that one never reported it);
#   env SEEDS=<regex>: only seeds whose id matches
K="${1:-0}"; N="${2:-1}"
cd /verif
i=0
for d in seeded/*/; do
  ID=$(basename $d)
  [ -f seeded/$ID/patch.diff ] || continue
  if [ -n "$SEEDS" ] && ! echo "$ID" | grep -Eq "$SEEDS"; then continue; fi
  i=$((i+1))
  [ $((i % N)) -eq "$K" ] || continue
  P="$PROPS"
  if [ "$PROPS" = "listed" ]; then
    # the seed's own property plus every check that reported it before
    P=$(python3 -c "import json,sys; m=json.load(open('seeded/$ID/meta.json')); print(' '.join(sorted(set([m['breaks_property']]+m['quick_checks_that_caught_it']))))")
  fi
  if [ "$PROPS" = "own" ]; then
    # only the check of the property the seed targets; if that check never reported it, the ones that did
    P=$(python3 -c "import json,sys; m=json.load(open('seeded/$ID/meta.json')); o=m['breaks_property']; c=m['quick_checks_that_caught_it']; print(o if o in c or not c else o+' '+' '.join(c[:3]))")
  fi
  C=$(MUT_SCRATCH=/tmp/mutR$K python3 tools/seedcheck.py seeded/$ID/patch.diff $P 2>&1)
  echo "$C" | sed "s/^/$ID: /"
  CAUGHT=$(echo "$C" | grep "^CAUGHT-BY:" | sed 's/CAUGHT-BY: //')
  [ -n "$CAUGHT" ] || continue
  python3 - "$ID" "$CAUGHT" "$P" <<'PY'
import json,sys
i,c,props=sys.argv[1:4]
new=[] if c in('none','') else c.split()
p=f'/verif/seeded/{i}/meta.json'; m=json.load(open(p))
if props.strip():
    new=sorted(set(x for x in m['quick_checks_that_caught_it'] if x not in props.split())|set(new))
m['quick_checks_that_caught_it']=new; json.dump(m,open(p,'w'),indent=1)
PY
done
