#!/usr/bin/env bash
# Dev tool: (re)process every sub-agent seed: confirm new ones, re-run all quick checks on already confirmed ones.
cd /verif
for p in C01 C02 C03 C04 C05 C06 C07 C08 C09 C10 C11 C12 C13 C14 C15 C16 C17 C18 C19 C20; do
  for n in 1 2; do
    ID="$p-$n"
    if [ -f seeded/$ID/patch.diff ]; then
      C=$(MUT_SCRATCH=/tmp/mut2 python3 tools/seedcheck.py seeded/$ID/patch.diff 2>&1)
      echo "$C" | sed "s/^/$ID: /"
      CAUGHT=$(echo "$C" | grep "^CAUGHT-BY:" | sed 's/CAUGHT-BY: //')
      python3 - "$ID" "$CAUGHT" <<'PY'
import json,sys
i,c=sys.argv[1:3]
p=f'/verif/seeded/{i}/meta.json'; m=json.load(open(p)); m['quick_checks_that_caught_it']=[] if c in('none','') else c.split(); json.dump(m,open(p,'w'),indent=1)
PY
    else
      tools/process_seed.sh $p $n
    fi
  done
done
