#!/usr/bin/env bash
# Dev tool: re-run all quick checks on every confirmed seed under /verif/seeded and refresh meta.json.
#   tools/recheck_seeds.sh [shard k] [of n]      (each shard uses its own scratch copy /tmp/mutR<k>)
K="${1:-0}"; N="${2:-1}"
cd /verif
i=0
for d in seeded/*/; do
  ID=$(basename $d)
  [ -f seeded/$ID/patch.diff ] || continue
  i=$((i+1))
  [ $((i % N)) -eq "$K" ] || continue
  C=$(MUT_SCRATCH=/tmp/mutR$K python3 tools/seedcheck.py seeded/$ID/patch.diff 2>&1)
  echo "$C" | sed "s/^/$ID: /"
  CAUGHT=$(echo "$C" | grep "^CAUGHT-BY:" | sed 's/CAUGHT-BY: //')
  [ -n "$CAUGHT" ] || continue
  python3 - "$ID" "$CAUGHT" <<'PY'
import json,sys
i,c=sys.argv[1:3]
p=f'/verif/seeded/{i}/meta.json'; m=json.load(open(p)); m['quick_checks_that_caught_it']=[] if c in('none','') else c.split(); json.dump(m,open(p,'w'),indent=1)
PY
done
