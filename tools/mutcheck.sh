#!/usr/bin/env bash
# Dev tool (not a registered check): apply a patch to /repo, run the quick checks of the given
# properties (default: all), print one line per property, and ALWAYS undo the patch afterwards.
#   tools/mutcheck.sh <patch.diff> [C01 C02 ...]
set -u
PATCH="$(readlink -f "$1")"; shift
PROPS=("$@"); [ ${#PROPS[@]} -eq 0 ] && PROPS=(C01 C02 C03 C04 C05 C06 C07 C08 C09 C10 C11 C12 C13 C14 C15 C16 C17 C18 C19 C20)
cd /verif
if ! git -C /repo diff --quiet; then echo "refusing: /repo has uncommitted changes"; exit 3; fi
trap 'git -C /repo checkout -- . ; git -C /repo clean -fdq examples >/dev/null 2>&1' EXIT
git -C /repo apply "$PATCH" || { echo "patch does not apply"; exit 3; }
CAUGHT=()
for p in "${PROPS[@]}"; do
  out=$(VERIF_SEED=${VERIF_SEED:-1} ./check "$p" quick 2>&1); rc=$?
  first=$(echo "$out" | grep -m1 -A1 "^VIOLATION" | tail -1 | cut -c1-160)
  [ $rc -eq 2 ] && first=$(echo "$out" | grep -m1 "INCONCLUSIVE\|^error" | cut -c1-160)
  echo "$p rc=$rc $first"
  [ $rc -eq 1 ] && CAUGHT+=("$p")
done
echo "CAUGHT-BY: ${CAUGHT[*]:-none}"
