#!/usr/bin/env python3
"""Dev tool: systematic operator mutants of /repo/src (never touches /repo or /verif: everything in a scratch copy).
For every sampled mutant: (1) does the library still compile, (2) does the pinned test-suite still pass,
(3) if both: which quick check of /verif reports a VIOLATION first.  Only mutants that survive the test-suite
say anything about the monitors; the rest are counted and dropped.

  tools/automut.py list                     # print the candidate mutants (id file:line operator)
  tools/automut.py run K N [MAX]            # process candidates i with i % N == K (own scratch $MUT_SCRATCH.K)
env: MUT_SCRATCH (default /tmp/amut), AM_SAMPLE (every n-th candidate, default 1), VERIF_SEED
"""
import re, subprocess, sys, os, hashlib

SRC_FILES = ['ctx.rs', 'dot.rs', 'gcounter.rs', 'glist.rs', 'gset.rs', 'identifier.rs', 'list.rs', 'lwwreg.rs', 'map.rs',
             'maxreg.rs', 'merkle_reg.rs', 'minreg.rs', 'mvreg.rs', 'orswot.rs', 'pncounter.rs', 'vclock.rs']
# property order in which the checks are tried, by file (first VIOLATION stops the search)
ORDER = {
    'ctx.rs': 'C07 C04 C05 C06', 'dot.rs': 'C10 C16 C07 C04', 'gcounter.rs': 'C11 C18 C16 C02 C09', 'pncounter.rs': 'C11 C18 C16 C02 C09',
    'glist.rs': 'C13 C14 C02 C03 C09 C01', 'gset.rs': 'C11 C02 C09', 'identifier.rs': 'C14 C13 C12', 'list.rs': 'C12 C13 C09 C16 C01',
    'lwwreg.rs': 'C11 C17 C16 C02', 'maxreg.rs': 'C11 C02', 'minreg.rs': 'C11 C02', 'merkle_reg.rs': 'C15 C02 C03 C09',
    'mvreg.rs': 'C06 C02 C03 C18 C07 C09 C16 C17', 'orswot.rs': 'C04 C02 C03 C08 C18 C07 C09 C16 C17 C20',
    'map.rs': 'C05 C02 C03 C08 C18 C07 C09 C16 C17 C20 C01', 'vclock.rs': 'C10 C04 C06 C05 C18 C16 C17 C02',
}
ALL = ['C%02d' % i for i in range(1, 21)]

OPS = [
    (r' <= ', ' < '), (r' < ', ' <= '), (r' >= ', ' > '), (r' > ', ' >= '), (r' == ', ' != '), (r' != ', ' == '),
    (r' && ', ' || '), (r' \|\| ', ' && '), (r' \+ 1\b', ' + 0'), (r' - 1\b', ' - 0'), (r' \+ ', ' - '),
    (r'\.min\(', '.max('), (r'\.max\(', '.min('), (r'\btrue\b', 'false'), (r'\bfalse\b', 'true'),
    (r'Ordering::Less', 'Ordering::Greater'), (r'Ordering::Greater', 'Ordering::Less'),
    (r'\bcontinue;', 'break;'), (r'\bif !', 'if '), (r'\.is_empty\(\)', '.is_empty() == false'),
    (r'\.next_back\(\)', '.next()'), (r'\.first\(\)', '.last()'), (r'\.last\(\)', '.first()'),
    (r'\.is_some\(\)', '.is_none()'), (r'\.is_none\(\)', '.is_some()'),
    (r'None \| ', ''), (r'\bother\.clock\b', 'self.clock'), (r'\bself\.clock\b', 'other.clock'),
    (r'\bother\.deferred\b', 'self.deferred'), (r'&mut self\.', '&mut self.clone().'),
    (r'\.counter\b', '.counter.saturating_sub(1)'), (r'\.inc\(\)', '.clone()'),
]
STMT = re.compile(r'^\s+([a-z_]+(\.[a-z_0-9]+)+\((.*)\);)\s*$')  # delete a call statement


def candidates():
    out = []
    for f in SRC_FILES:
        lines = open('/repo/src/' + f).read().split('\n')
        skip_until_close = False
        in_test = False
        for i, l in enumerate(lines):
            s = l.strip()
            if s.startswith('#[cfg(test)]') or s.startswith('#[cfg(all(test'):
                in_test = True  # test modules sit at the end of the files
            if in_test:
                continue
            if re.match(r'^impl.*\b(Display|Debug|Arbitrary) for\b', l):
                skip_until_close = True
            if skip_until_close:
                if l.startswith('}'):
                    skip_until_close = False
                continue
            if s.startswith('//') or s.startswith('#[') or s.startswith('///') or 'write!' in l or 'panic!' in l or 'assert' in l:
                continue
            for pat, rep in OPS:
                for m in re.finditer(pat, l):
                    if '->' in l and pat in (r' > ', r' >= '):
                        continue
                    if '<' in l and '>' in l and pat in (r' < ', r' > ', r' <= ', r' >= ') and ('impl' in l or 'fn ' in l or 'where' in l or '::<' in l):
                        continue
                    if pat == r' \+ ' and ('impl' in l or 'where' in l or 'fn ' in l or re.search(r': [A-Z]', l)):
                        continue
                    new = l[:m.start()] + rep + l[m.end():]
                    out.append((f, i, pat.replace('\\', ''), new))
            if STMT.match(l) and 'let ' not in l and 'return' not in l:
                out.append((f, i, 'delete-stmt', re.match(r'^\s*', l).group(0) + '// deleted'))
    return out


def sh(cmd, **kw):
    return subprocess.run(cmd, shell=True, capture_output=True, text=True, **kw)


def main():
    c = candidates()
    samp = int(os.environ.get('AM_SAMPLE', '1'))
    # deterministic shuffle so that a sample covers all files
    c.sort(key=lambda x: hashlib.md5(('%s:%d:%s' % (x[0], x[1], x[2])).encode()).hexdigest())
    c = c[::samp]
    if sys.argv[1] == 'list':
        for i, (f, ln, op, new) in enumerate(c):
            print(i, f'{f}:{ln + 1}', op, '|', new.strip())
        print(len(c), 'candidates')
        return
    k, n = int(sys.argv[2]), int(sys.argv[3])
    mx = int(sys.argv[4]) if len(sys.argv) > 4 else 10**9
    SCR = os.environ.get('MUT_SCRATCH', '/tmp/amut') + '.%d' % k
    REPO = SCR + '/repo'
    os.makedirs(SCR, exist_ok=True)
    sh(f"rsync -a --delete --exclude target --exclude .git /repo/ {REPO}/")
    sh(f"rsync -a --delete --exclude target /verif/harness/ {SCR}/harness/")
    sh(f"mkdir -p {SCR}/verif && rsync -a --delete /verif/known_findings /verif/known_findings.json {SCR}/verif/")
    t = open(f"{SCR}/harness/Cargo.toml").read().replace('path = "/repo"', f'path = "{REPO}"')
    open(f"{SCR}/harness/Cargo.toml", 'w').write(t)
    done = 0
    for i, (f, ln, op, new) in enumerate(c):
        if i % n != k or done >= mx:
            continue
        done += 1
        tag = f'AM{i} {f}:{ln + 1} [{op}] {new.strip()[:90]}'
        orig = open('/repo/src/' + f).read().split('\n')
        mut = list(orig)
        mut[ln] = new
        open(f'{REPO}/src/{f}', 'w').write('\n'.join(mut))
        try:
            b = sh(f"cd {REPO} && cargo build --offline 2>&1 | grep -E '^error' | head -3")
            if b.stdout.strip():
                print(tag, '| UNCOMPILABLE', flush=True)
                continue
            tst = sh(f"cd {REPO} && timeout 600 cargo nextest run --workspace --no-fail-fast --tool-config-file pb:/w/lib/nextest.toml --profile pb --test-threads 4 --offline -E 'not test(prop_op_reordering_converges)' 2>&1 | grep -E 'Summary|^error' | head -2")
            if '132 passed' not in tst.stdout:
                print(tag, '| KILLED-BY-TESTS', tst.stdout.strip()[:80].replace('\n', ' '), flush=True)
                continue
            b = sh(f"cd {SCR}/harness && CARGO_NET_OFFLINE=true cargo build --release --offline 2>&1 | grep -E '^error' -A6 | head -20")
            if b.stdout.strip():
                print(tag, '| HARNESS-BUILD-ERROR', b.stdout[:200].replace('\n', ' '), flush=True)
                continue
            order = ORDER[f].split()
            order += [p for p in ALL if p not in order]
            caught = None
            inconc = []
            for pr in order:
                r = subprocess.run([f'{SCR}/harness/target/release/crdtmon', 'check', pr, '--tier', 'quick', '--seed', os.environ.get('VERIF_SEED', '1'), '--verif-dir', f'{SCR}/verif'], capture_output=True, text=True)
                if r.returncode == 1:
                    lines = r.stdout.splitlines()
                    first = ''
                    for j, l in enumerate(lines):
                        if l.startswith('VIOLATION'):
                            first = lines[j + 1][:110] if j + 1 < len(lines) else ''
                            break
                    caught = (pr, first)
                    break
                if r.returncode == 2:
                    inconc.append(pr)
            if caught:
                print(tag, '| CAUGHT-BY', caught[0], caught[1], flush=True)
            else:
                print(tag, '| SURVIVED-ALL-20-QUICK-CHECKS', ('inconclusive: ' + ' '.join(inconc)) if inconc else '', flush=True)
        finally:
            open(f'{REPO}/src/{f}', 'w').write('\n'.join(orig))
    sh(f"rm -rf {SCR}")


if __name__ == '__main__':
    main()
