#!/usr/bin/env bash
# NON-DECIDING supplementary runs (DESIGN §8, §12.5): the crate is 100% safe single-threaded Rust, so
# memory/UB tools can only report on dependencies; these runs just show the monitored executions are clean.
#   tools/sanitizer_smoke.sh miri      # ~7 min: 1 history x 16 instantiations, all monitors, under Miri
#   tools/sanitizer_smoke.sh valgrind  # ~1 min: 30 histories x 16 instantiations under memcheck
set -u
cd /verif/harness
case "${1:-valgrind}" in
  miri) MIRIFLAGS="-Zmiri-disable-isolation" CARGO_NET_OFFLINE=true cargo +nightly miri run --offline -- smoke 1 8 2>&1 | grep -E "^smoke|error|Undefined" ;;
  valgrind) CARGO_NET_OFFLINE=true cargo build --release --offline 2>/dev/null; valgrind --error-exitcode=9 --leak-check=full -q ./target/release/crdtmon smoke 30 14 2>&1 | tail -25 ;;
esac
